#!/bin/sh
# Offline setup: third-party packages the checks need, from the local wheelhouse only.
# Safe to run repeatedly and concurrently (flock).
set -e
ROOT="$(cd "$(dirname "$0")" && pwd)"
PY="${VERIF_PYTHON:-/venv/bin/python}"
WH="${VERIF_WHEELS:-/opt/veriftools/wheels}"
DEPS="$ROOT/.deps"
mkdir -p "$DEPS" "$ROOT/.work" "$ROOT/evidence" "$ROOT/replays"
(
  flock 9
  need=""
  PYTHONPATH="$DEPS" "$PY" -c "import hypothesis" 2>/dev/null || need="$need hypothesis"
  PYTHONPATH="$DEPS" "$PY" -c "import numpy, scipy.optimize" 2>/dev/null || need="$need numpy scipy"
  PYTHONPATH="$DEPS" "$PY" -c "import atheris" 2>/dev/null || need="$need atheris"
  if [ -n "$need" ]; then
    PIP_NO_INDEX=1 "$PY" -m pip install --quiet --no-index --find-links "$WH" --target "$DEPS" $need >&2 \
      || echo "setup: pip could not install:$need (checks that need them will say so)" >&2
  fi
) 9>"$ROOT/.work/setup.lock"
PYTHONPATH="$DEPS" "$PY" -c "import hypothesis, numpy, scipy.optimize; print('setup ok: hypothesis', hypothesis.__version__, 'numpy', numpy.__version__)"
