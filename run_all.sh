#!/bin/sh
# run_all.sh [tier] [IDs...] : run checks of a tier in sequence; prints one summary line per check
tier="${1:-quick}"; [ $# -gt 0 ] && shift
cd "$(dirname "$0")"
mkdir -p .work evidence replays
ids="$*"; [ -z "$ids" ] && ids="C01 C02 C03 C04 C05 C06 C07 C08 C09 C10 C11 C12 C13 C14 C15 C16 C17 C18 C19 C20"
rc=0
for id in $ids; do
  ./check $id --tier "$tier" > .work/run_$id.log 2>&1; r=$?
  tail -1 .work/run_$id.log | cut -c1-200
  [ $r -ne 0 ] && { echo "  -> exit $r"; rc=1; grep -E "VIOLATION|HARNESS|harness" .work/run_$id.log | head -5 | cut -c1-400; }
done
exit $rc
