#!/bin/sh
# run every check of a tier in sequence; prints one summary line per check
tier="${1:-quick}"
cd "$(dirname "$0")"
mkdir -p .work evidence replays
rc=0
for i in 01 02 03 04 05 06 07 08 09 10 11 12 13 14 15 16 17 18 19 20; do
  ./check C$i --tier "$tier" > .work/run_C$i.log 2>&1; r=$?
  tail -1 .work/run_C$i.log | cut -c1-200
  [ $r -ne 0 ] && { echo "  -> exit $r"; rc=1; grep -E "VIOLATION|HARNESS|harness" .work/run_C$i.log | head -5; }
done
exit $rc
