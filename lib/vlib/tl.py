"""Timeline specs (generator + builder), SVG/TikZ parsers and the drawing oracles of C07-C09, C11.

spec = {
  "kind": "linear" | "datetime" | "date" | "time",
  "data": [{"time": number | ISO string, "width": w (optional), "text": str (optional)}, ...],
  "opts": {direction, initialWidth, initialHeight, margin, layerGap, labelPadding, labella, showTicks, showBorder, dotRadius,
           dotColor/labelBgColor/labelTextColor/linkColor/borderColor as ["hex", s] | ["list", [...]] | ["fn", name]},
  "scale": "own" | "default",       # time kinds only; linear data always bring their own LinearScale()
  "domain": [lo, hi] | None,        # explicit axis domain (numbers or ISO strings)
  "options_mode": "dict" | "none" | "empty",
}
"""
import copy
import datetime as dtm
import math
import re
from datetime import timedelta
from xml.etree import ElementTree as ET

from hypothesis import strategies as st

from vlib import texrel, timegen as tg
from vlib.core import HarnessError, Violation, engine_limits, guarded, lib_call

D = dtm.datetime
DEFAULT_PAD = {"left": 2, "right": 2, "top": 3, "bottom": 2}
DEFAULT_MARGIN = {"left": 20, "right": 20, "top": 20, "bottom": 20}
COLOR_KEYS = ("dotColor", "labelBgColor", "labelTextColor", "linkColor", "borderColor")
COLOR_DEFAULT = {"dotColor": "#222", "labelBgColor": "#222", "labelTextColor": "#fff", "linkColor": "#222", "borderColor": "#000"}

COLOR_FNS = {
    "const6": lambda d: "#123456",
    "mixed3": lambda d: "#FfF",
    "nohash": lambda d: "a1b2c3",
    "bywidth": lambda d: "#f00" if d.get("width", 50) > 40 else "#00F",
    "bytext": lambda d: "#0a0" if d.get("text") else "#A0A0A0",
}


# ------------------------------------------------------------------ builder

def time_value(kind, v, today=None):
    if kind == "linear":
        return v
    if kind == "datetime":
        return D.fromisoformat(v)
    if kind == "date":
        return dtm.date.fromisoformat(v)
    if kind == "time":
        return dtm.time.fromisoformat(v)
    raise ValueError(kind)


def tau(kind, v, today=None):
    """the datum's time exactly as supplied, as a number (epoch-ms for time kinds)"""
    if kind == "linear":
        return float(v)
    if kind == "datetime":
        return (D.fromisoformat(v) - tg.EPOCH) / tg.MS
    if kind == "date":
        return (D.combine(dtm.date.fromisoformat(v), dtm.time()) - tg.EPOCH) / tg.MS
    return (D.combine(today or dtm.date.today(), dtm.time.fromisoformat(v)) - tg.EPOCH) / tg.MS


def color_option(c):
    form, val = c
    if form == "hex":
        return val
    if form == "list":
        return list(val)
    return COLOR_FNS[val]


def build(spec):
    """fresh data dicts and a fresh options dict (fresh scale object) for one Timeline"""
    from labella.scale import LinearScale, TimeScale

    kind = spec["kind"]
    data = []
    for d in spec["data"]:
        x = {"time": time_value(kind, d["time"])}
        if "width" in d:
            x["width"] = d["width"]
        if "text" in d:
            x["text"] = d["text"]
        data.append(x)
    mode = spec.get("options_mode", "dict")
    if mode == "none":
        return data, None
    if mode == "empty":
        return data, {}
    o = copy.deepcopy(spec["opts"])
    for k in COLOR_KEYS:
        if k in o:
            o[k] = color_option(o[k])
    if kind == "linear":
        o["scale"] = LinearScale()
    elif spec.get("scale") == "own":
        o["scale"] = TimeScale()
    if spec.get("domain"):
        lo, hi = spec["domain"]
        o["domain"] = [lo, hi] if kind == "linear" else [D.fromisoformat(lo), D.fromisoformat(hi)]
    return data, o


def make(spec, backend):
    from labella.timeline import TimelineSVG, TimelineTex

    data, o = build(spec)
    cls = TimelineSVG if backend == "svg" else TimelineTex
    if o is None:
        return cls(data)
    return cls(data, o)


def run(spec, backend, ctx=None):
    """construct + export under the watchdog; returns (document as str, timeline object)"""
    def thunk():
        t = make(spec, backend)
        doc = t.export()
        if isinstance(doc, bytes):
            doc = doc.decode("utf-8")
        return doc, t

    secs, budget = engine_limits(len(spec["data"]))
    return guarded(lambda: lib_call(thunk), ctx, secs, budget)


def export(spec, backend):
    return run(spec, backend)[0]


# ------------------------------------------------------------------ generator

TEXT_ALPHA = list("abcXYZ 019-_.,:;!?()[]") + list("&<>\"'") + list("$%#_{}~^\\") + [chr(c) for c in (0xE9, 0xEB, 0xFC, 0xF1, 0xE7, 0xC5, 0xDF, 0x1D8, 0x1EAD)] + \
    ["e\u0301", "o\u0308", "a\u0323\u0302", "\u65e5", "\u672c", "\U0001F600", "\u2026", "\u00a0", "\u00b2", "\ufb01", "\u0439"]


def texts():
    ch = st.one_of(st.sampled_from(TEXT_ALPHA), st.sampled_from(TEXT_ALPHA), st.characters(min_codepoint=0x20, max_codepoint=0x2FFF, exclude_categories=["Cc", "Cs", "Cn", "Co", "Zl", "Zp"]).filter(lambda c: c not in "\x85\u2028\u2029"))
    return st.lists(ch, min_size=1, max_size=12).map("".join).filter(lambda s: s.strip() != "" or True)


WIDTHS = st.one_of(st.just(50), st.just(50), st.integers(5, 90), st.sampled_from([20.5, 30, 70, 7, 120]))


@st.composite
def times(draw, kind, n):
    if kind == "linear":
        lo = draw(st.sampled_from([0, -50, 1000, 0.5, 1e6]))
        span = draw(st.sampled_from([1, 10, 100, 1000, 3.7, 1e-3]))
        if span < 1e-4 * abs(lo):
            # keep numeric data in the regime in which C13/C14 specify ticks and nice(): a span of 1e-9 of the
            # values' magnitude puts ticks a few 1e-6 of the axis beyond its end through float rounding alone
            span = 1e-3 * abs(lo)
        if n >= 4 and draw(st.integers(0, 4)) == 0:
            return [round(lo + i * span / (n - 1), 9) for i in range(n)]
        return [draw(st.one_of(st.integers(0, 10).map(lambda k: lo + k * span / 10), st.floats(0, 1).map(lambda f: round(lo + f * span, 6)))) for _ in range(n)]
    if kind == "date":
        base = tg.parse(draw(tg.instant())).date()
        span = draw(st.sampled_from([0, 3, 10, 40, 400, 4000, 40000]))
        out = []
        for _ in range(n):
            d = base + timedelta(days=draw(st.integers(0, span)))
            if d.year > tg.YEAR_HI:
                d = base
            out.append(d.isoformat())
        return out
    if kind == "time":
        out = []
        for _ in range(n):
            h, mi = draw(st.integers(0, 23)), draw(st.integers(0, 59))
            s = draw(st.sampled_from([0, 0, 59, 30]))
            ms_ = draw(st.sampled_from([0, 0, 0, 1, 500, 999]))
            out.append(dtm.time(h, mi, s, ms_ * 1000).isoformat(timespec="milliseconds"))
        return out
    base = tg.parse(draw(tg.instant()))
    span = draw(tg.span_ms(1, int(150 * 365 * 86400e3)))
    if draw(st.integers(0, 11)) == 0:
        # microsecond-resolution instants a few milliseconds apart (a datetime carries microseconds)
        out = [(base + timedelta(microseconds=draw(st.integers(0, 20000)))).isoformat(timespec="microseconds") for _ in range(n)]
        if n >= 2:  # spans stay in the documented regime (milliseconds and up): at least 2 ms between first and last
            out[0] = base.isoformat(timespec="microseconds")
            out[-1] = (base + timedelta(microseconds=draw(st.integers(2000, 20000)))).isoformat(timespec="microseconds")
        return out
    if n >= 4 and draw(st.integers(0, 4)) == 0:
        # evenly spaced instants (one datum per hour / day / year ...), the commonest real timeline
        return [tg.iso(tg.from_ms(min(tg.HI_MS, tg.ms(base) + (i * span) // (n - 1)))) for i in range(n)]
    out = []
    for _ in range(n):
        f = draw(st.one_of(st.floats(0, 1), st.sampled_from([0.0, 1.0, 0.5])))
        v = tg.ms(base) + int(f * span)
        v = min(v, tg.HI_MS)
        out.append(tg.iso(tg.from_ms(v)))
    return out


def labella_opts(L, extra=False):
    """engine options sized relative to the axis length L"""
    more = dict(lineSpacing=st.sampled_from([0, 2, 8, 25])) if extra else {}
    return st.fixed_dictionaries({}, optional=dict(
        **more,
        maxPos=st.sampled_from([L, L, int(L * 0.6), int(L * 1.5), 150, 300, 800]),
        minPos=st.sampled_from([None, 0, 10, -20]),
        nodeSpacing=st.sampled_from([3, 3, 4, 10, 0, 1, 2.5]),
        algorithm=st.sampled_from(["overlap", "simple", "none"]),
        stubWidth=st.sampled_from([0, 1, 3]),
        density=st.sampled_from([0.85, 1, 0.5]),
    ))


def color_form():
    hex3 = st.sampled_from(["#f00", "#abc", "#ABC", "#Fa0", "0f0"])
    hex6 = st.sampled_from(["#A1B2C3", "#a1b2c3", "a1b2c3", "#1f77b4", "#FF7F0E"])
    return st.one_of(
        hex3.map(lambda s: ["hex", s]), hex6.map(lambda s: ["hex", s]),
        st.lists(st.one_of(hex3, hex6), min_size=1, max_size=4).map(lambda l: ["list", l]),
        st.sampled_from(sorted(COLOR_FNS)).map(lambda n: ["fn", n]),
    )


@st.composite
def timeline_spec(draw, tier, kinds=("linear", "datetime", "datetime", "date", "time"), max_items=None, min_spacing=None, min_layer_gap=None, allow_modes=False, extra_engine_opts=False):
    kind = draw(st.sampled_from(kinds))
    nmax = max_items or (40 if tier == "quick" else 120)
    n = draw(st.one_of(st.integers(1, 8), st.integers(1, nmax)))
    tt = draw(times(kind, n))
    if n > 1 and draw(st.integers(0, 9)) < 3:
        tt[1] = tt[0]
    if n > 2 and draw(st.integers(0, 9)) < 2:
        tt = [tt[0]] * n if draw(st.integers(0, 4)) == 0 else tt
    data = []
    for t in tt:
        d = {"time": t}
        has_text = draw(st.integers(0, 9)) < 5
        if has_text:
            d["text"] = draw(texts())
            d["width"] = draw(WIDTHS)
        elif draw(st.integers(0, 9)) < 7:
            d["width"] = draw(WIDTHS)
        data.append(d)
    direction = draw(st.sampled_from(["up", "down", "left", "right"]))
    o = {"direction": direction}
    if draw(st.integers(0, 9)) < 7:
        o["initialWidth"] = draw(st.sampled_from([400, 804, 600, 250, 1200]))
        o["initialHeight"] = draw(st.sampled_from([400, 160, 300, 700]))
    if draw(st.integers(0, 9)) < 4:
        o["margin"] = {k: draw(st.integers(0, 40)) for k in ("left", "right", "top", "bottom")}
    lg = draw(st.sampled_from(["d", "d", 1, 10, 40, 60, 25.5, 0] if not min_layer_gap else ["d", "d", 1, 10, 40, 60, 25.5]))
    if lg != "d":
        o["layerGap"] = lg
    if draw(st.integers(0, 9)) < 4:
        o["labelPadding"] = {k: draw(st.sampled_from([0, 1, 2, 3, 5, 2.5])) for k in ("left", "right", "top", "bottom")}
    m = o.get("margin", DEFAULT_MARGIN)
    L = (o.get("initialWidth", 400) - m["left"] - m["right"]) if direction in ("up", "down") else (o.get("initialHeight", 400) - m["top"] - m["bottom"])
    lab = draw(labella_opts(L, extra_engine_opts))
    if "maxPos" not in lab and draw(st.integers(0, 9)) < 5:
        lab["maxPos"] = draw(st.sampled_from([L, L, int(L * 0.5)]))
    if len(data) > 60 and lab.get("maxPos") is not None:
        # cost bound of the generator (not of any property): > 60 labels squeezed into dozens of layers take the best
        # part of a minute per export; such timelines get a budget of at least an eighth of their required width
        R0 = sum(d.get("width", 50) + 4 + lab.get("nodeSpacing", 3) for d in data)
        need = R0 / 8 / lab.get("density", 0.85) + (lab.get("minPos") or 0)
        if lab["maxPos"] < need:
            lab["maxPos"] = int(need) + 1
    if min_spacing is not None and lab.get("nodeSpacing", 3) < min_spacing:
        lab["nodeSpacing"] = draw(st.sampled_from([3, 4, 10]))
    if draw(st.integers(0, 9)) == 0:
        # an engine-options dict that was used for another timeline before still carries that timeline's direction
        lab["direction"] = draw(st.sampled_from([d_ for d_ in ("up", "down", "left", "right") if d_ != direction]))
    if lab or draw(st.booleans()):
        o["labella"] = lab
    if draw(st.integers(0, 9)) < 3:
        o["showTicks"] = False
    if draw(st.integers(0, 9)) < 3:
        o["showBorder"] = True
    if draw(st.integers(0, 9)) < 2:
        o["dotRadius"] = draw(st.sampled_from([1, 3, 5]))
    if draw(st.integers(0, 9)) < 4:
        for k in COLOR_KEYS:
            if draw(st.booleans()):
                o[k] = draw(color_form())
    spec = dict(kind=kind, data=data, opts=o, scale="own" if (kind == "linear" or draw(st.booleans())) else "default", domain=None, options_mode="dict")
    if draw(st.integers(0, 9)) < 5 and kind != "time":
        tv = [tau(kind, d["time"]) for d in data]
        lo, hi = min(tv), max(tv)
        pad = (hi - lo) * draw(st.sampled_from([0, 0.1, 1])) + draw(st.sampled_from([0, 1, 1000]))
        if hi - lo + 2 * pad > 0:
            if kind == "linear":
                spec["domain"] = [lo - pad, hi + pad]
            else:
                a, b = int(lo - pad), int(hi + pad) + 1
                if a >= tg.ms(D(1, 1, 2)) and b <= tg.ms(D(9000, 1, 1)):
                    spec["domain"] = [tg.iso(tg.from_ms(a)), tg.iso(tg.from_ms(b))]
    if allow_modes and kind != "linear":
        spec["options_mode"] = draw(st.sampled_from(["dict", "dict", "dict", "none", "empty"]))
    return spec


# ------------------------------------------------------------------ parsers

NUM = r"(-?\d+(?:\.\d+)?(?:[eE][-+]?\d+)?)"


def _tr(s):
    m = re.fullmatch(r"translate\(\s*%s\s*,\s*%s\s*\)" % (NUM, NUM), s)
    if not m:
        raise HarnessError("cannot parse transform %r" % s)
    return (float(m.group(1)), float(m.group(2)))


def _rgb(s):
    m = re.search(r"rgb\(\s*(\d+)\s*,\s*(\d+)\s*,\s*(\d+)\s*\)", s)
    if not m:
        raise HarnessError("cannot parse colour %r" % s)
    return tuple(int(x) for x in m.groups())


def _style(s):
    """CSS declarations of a style attribute as a dict (order and whitespace are not part of the picture)"""
    out = {}
    for decl in (s or "").split(";"):
        if ":" in decl:
            k, v = decl.split(":", 1)
            out[k.strip()] = v.strip()
    return out


def _style_rgb(s, prop):
    v = _style(s).get(prop)
    if v is None or v == "none":
        return None
    return _rgb(v)


def parse_path(d):
    toks = d.split()
    segs = []
    i = 0
    cur = start = None
    while i < len(toks):
        c = toks[i]
        if c == "M":
            cur = (toks[i + 1], toks[i + 2])
            start = cur
            i += 3
        elif c == "C":
            p = toks[i + 1:i + 7]
            segs.append(("C", cur, (p[0], p[1]), (p[2], p[3]), (p[4], p[5])))
            cur = (p[4], p[5])
            i += 7
        elif c == "L":
            segs.append(("L", cur, (toks[i + 1], toks[i + 2])))
            cur = (toks[i + 1], toks[i + 2])
            i += 3
        else:
            raise HarnessError("path command %r" % c)
    return start, segs


def parse_svg(doc):
    """Lenient about *absent* parts (an absent transform is the identity, an absent layer is empty, an absent axis line
    is reported to the properties that own it); anything that is present but unreadable is a harness error."""
    try:
        root = ET.fromstring(doc.encode("utf-8") if isinstance(doc, str) and doc.lstrip().startswith("<?xml") else doc)
    except ET.ParseError as e:
        raise Violation("svg-not-well-formed", "the SVG export is not well-formed XML: %s" % e)
    for el in root.iter():  # an xmlns declaration must not matter: compare local names
        if isinstance(el.tag, str) and "}" in el.tag:
            el.tag = el.tag.split("}", 1)[1]
    try:
        out = {"width": root.get("width"), "height": root.get("height"), "problems": []}
        g0 = root[0]
        out["margin"] = _tr(g0.get("transform")) if g0.get("transform") else (0.0, 0.0)
        mains = [g for g in g0 if g.get("class") == "main-layer"]
        if not mains:
            raise HarnessError("no main-layer group")
        main = mains[0]
        out["main"] = _tr(main.get("transform")) if main.get("transform") else (0.0, 0.0)
        line = main.find("./g/line[@class='timeline']")
        if line is None:
            out["axis"] = None
            out["problems"].append(("axis", "axis-line-missing", "the SVG export draws no axis line"))
        else:
            out["axis"] = (float(line.get("x2", "0")), float(line.get("y2", "0")))
        ax = main.find("./g[@class='axis-layer']")
        out["ticks"] = None if ax is None else [(_tr(t.get("transform")), t.find("text").text or "") for t in ax]
        ll = main.find("./g[@class='link-layer']")
        out["links"] = [(parse_path(p.get("d")), _style_rgb(p.get("style"), "stroke")) for p in (ll if ll is not None else [])]
        labs = []
        lay = main.find("./g[@class='label-layer']")
        for g in (lay if lay is not None else []):
            r = g.find("rect")
            t = g.find("text")
            stl = r.get("style")
            fill = _style_rgb(stl, "fill")
            border = _style_rgb(stl, "stroke")
            labs.append(dict(origin=_tr(g.get("transform")) if g.get("transform") else (0.0, 0.0), w=float(r.get("width")), h=float(r.get("height")), fill=fill, border=border,
                             text=None if t is None else (t.text or ""), textcolor=None if t is None else _style_rgb(t.get("style"), "fill")))
        out["labels"] = labs
        dl = main.find("./g[@class='dot-layer']")
        out["dots"] = [((float(c.get("cx", "0")), float(c.get("cy", "0"))), float(c.get("r")), _style_rgb(c.get("style"), "fill")) for c in (dl if dl is not None else [])]
        return out
    except (HarnessError, Violation):
        raise
    except Exception as e:
        raise HarnessError("SVG parser: %r (the emitter's surface syntax changed)" % (e,))


def _hex(s):
    return tuple(int(s[i:i + 2], 16) for i in (0, 2, 4))


def parse_tex(s):
    try:
        out = {}
        colors = {}
        problems = out["problems"] = []  # (topic, bucket, message): judged by the property that owns the topic
        for m in re.finditer(r"\\definecolor\{(\w+?)Color([A-Z]+)\}\{HTML\}\{([^}\n]*)\}", s):
            if not re.fullmatch(r"[0-9A-F]{6}", m.group(3)):
                problems.append(("colour", "tex-colour-not-RRGGBB", "\\definecolor{%sColor%s}{HTML}{%s}: xcolor's HTML model needs six upper-case hex digits" % m.groups()))
                colors[(m.group(1), m.group(2))] = ("malformed", m.group(3))
                continue
            if (m.group(1), m.group(2)) in colors:
                problems.append(("colour", "tex-duplicate-colour-name", "%sColor%s defined twice" % (m.group(1), m.group(2))))
            colors[(m.group(1), m.group(2))] = _hex(m.group(3))
        texts_ = {}
        for line in s.split("\n"):
            m = re.match(r"\\def\\text([A-Z]+)\{(.*)\}$", line, flags=re.S)
            if m:
                if m.group(1) in texts_:
                    problems.append(("text", "tex-duplicate-text-macro", "\\text%s defined twice" % m.group(1)))
                texts_[m.group(1)] = m.group(2)
        body = s[s.index("\\begin{tikzpicture}"):]
        # a picture whose environments do not balance cannot be compiled at all
        for env in ("scope", "tikzpicture", "document"):
            nb, ne = s.count("\\begin{%s}" % env), s.count("\\end{%s}" % env)
            if nb != ne:
                problems.append(("structure", "tex-unbalanced-environment", "%d \\begin{%s} but %d \\end{%s}" % (nb, env, ne, env)))
        depth = 0
        for m_ in re.finditer(r"\\(begin|end)\{scope\}", body):
            depth += 1 if m_.group(1) == "begin" else -1
            if depth < 0:
                problems.append(("structure", "tex-unbalanced-environment", "\\end{scope} without a matching \\begin{scope}"))
                break
        sec = re.split(r"^% (shift for the margin|main layer|axis layer|axis|link layer|label layer|dots)$", body, flags=re.M)
        secs = {sec[i]: sec[i + 1] for i in range(1, len(sec), 2)}
        def shift_of(name):
            m_ = re.search(r"shift=\{\(%s, %s\)\}" % (NUM, NUM), secs.get(name, ""))
            return tuple(float(x) for x in m_.groups()) if m_ else (0.0, 0.0)  # no shifted scope = no shift

        out["margin"] = shift_of("shift for the margin")
        out["main"] = shift_of("main layer")
        m = re.search(r"\(0, 0\) -- \(%s, %s\);" % (NUM, NUM), secs.get("axis", ""))
        if m:
            out["axis"] = (float(m.group(1)), float(m.group(2)))
        else:
            out["axis"] = None
            problems.append(("axis", "axis-line-missing", "the TikZ export draws no axis line"))
        for name in ("link layer", "label layer", "dots"):
            secs.setdefault(name, "")
        if "axis layer" in secs:
            out["ticks"] = [((float(a), float(b)), t) for a, b, t in re.findall(r"\\begin\{scope\}\[shift=\{\(%s, %s\)\}\]\n\\draw[^\n]*\nnode\[anchor=\w+\] \{(.*)\};" % (NUM, NUM), secs["axis layer"])]
        else:
            out["ticks"] = None
        links = {}
        order = []
        for m in re.finditer(r"\\draw\[color=linkColor([A-Z]+), [^\]]*\] \((\S+), (\S+)\) (?:\.\. controls\n\((\S+), (\S+)\) and \((\S+), (\S+)\) \.\. \((\S+), (\S+)\);|-- \((\S+), (\S+)\);)", secs["link layer"]):
            i = m.group(1)
            if i not in links:
                links[i] = []
                order.append(i)
            if m.group(4) is not None:
                links[i].append(("C", (m.group(2), m.group(3)), (m.group(4), m.group(5)), (m.group(6), m.group(7)), (m.group(8), m.group(9))))
            else:
                links[i].append(("L", (m.group(2), m.group(3)), (m.group(10), m.group(11))))
        out["links"] = [((links[i][0][1], links[i]), colors.get(("link", i))) for i in order]
        out["link_ids"] = order
        labs = []
        for m in re.finditer(r"\\begin\{scope\}\[shift=\{\(%s, %s\)\}\]\n\\(fill|draw)\[([^\]]*)\]\n\(0, 0\) rectangle \(%s, %s\) node\[[^\]]*text=labelTextColor([A-Z]+)\] \{\\strut (.*)\};" % (NUM, NUM, NUM, NUM), secs["label layer"]):
            x, y, kind, opts, w, h, i, txt = m.groups()
            bg = re.search(r"labelBgColor([A-Z]+)", opts).group(1)
            bd = re.search(r"borderColor([A-Z]+)", opts)
            if txt != "" and txt[len("\\text"):] not in texts_:
                problems.append(("text", "tex-undefined-text-macro", "label uses %s, which is not defined" % txt))
                texts_[txt[len("\\text"):]] = ""
            labs.append(dict(origin=(float(x), float(y)), w=float(w), h=float(h), fill=colors.get(("labelBg", bg)), border=None if bd is None else colors.get(("border", bd.group(1)), "undefined"),
                             text=None if txt == "" else texts_[txt[len("\\text"):]], textcolor=colors.get(("labelText", i)), id=i, bgid=bg))
        out["labels"] = labs
        out["dots"] = [((float(x), float(y)), float(sz) / 2, colors.get(("dot", i))) for sz, i, x, y in re.findall(r"minimum size=%sbp, \nfill=dotColor([A-Z]+)\] at \(%s, %s\) \{\};" % (NUM, NUM, NUM), secs["dots"])]
        out["ncolors"] = len(colors)
        return out
    except (HarnessError, Violation):
        raise
    except Exception as e:
        raise HarnessError("TikZ parser: %r (the emitter's surface syntax changed)" % (e,))


# ------------------------------------------------------------------ oracles

def inner_dims(o):
    m = o.get("margin", DEFAULT_MARGIN)
    return (o.get("initialWidth", 400) - m["left"] - m["right"], o.get("initialHeight", 400) - m["top"] - m["bottom"])


def effective_opts(spec):
    return spec["opts"] if spec.get("options_mode", "dict") == "dict" else {"direction": "right"}


def _chains(tl_obj):
    """per datum: [(root ideal position, position of hop k)] from the axis outward, read from the engine's nodes"""
    nodes = getattr(tl_obj, "nodes", None)
    if not nodes:
        return None
    out = []
    for nd in nodes:
        hops = nd.getPathFromRoot()
        out.append([(hops[0].idealPos, h.currentPos) for h in hops])
    return out


def check_c07(spec, P, tl_obj, backend, today, svg_ticks=None):
    """returns info used by the C08 oracle; raises Violation"""
    kind = spec["kind"]
    o = effective_opts(spec)
    d = o.get("direction", "right")
    horiz = d in ("up", "down")
    data = spec["data"]
    n = len(data)
    for topic, bucket, msg in P.get("problems", []):
        if topic in ("text", "axis", "structure"):
            raise Violation(bucket, msg)
    if not (len(P["dots"]) == len(P["links"]) == len(P["labels"]) == n):
        raise Violation("counts", "%d data but %d dots, %d links, %d boxes" % (n, len(P["dots"]), len(P["links"]), len(P["labels"])))
    iw, ih = inner_dims(o)
    L = iw if horiz else ih
    if P["axis"] != ((L, 0) if horiz else (0, L)):
        raise Violation("axis-line", "axis drawn to %r, inner length %r (direction %s)" % (P["axis"], L, d))
    dom = lib_call(tl_obj.options["scale"].domain)
    d0, d1 = (float(dom[0]), float(dom[1])) if kind == "linear" else [(x - tg.EPOCH) / tg.MS for x in dom]
    tv = [tau(kind, x["time"], today) for x in data]
    if spec.get("domain") and spec.get("options_mode", "dict") == "dict":
        e = spec["domain"]
        e = [float(e[0]), float(e[1])] if kind == "linear" else [(D.fromisoformat(v) - tg.EPOCH) / tg.MS for v in e]
        d0, d1 = e  # independent of what the scale reports
    elif not (min(d0, d1) - 1e-6 * abs(d1 - d0) <= min(tv) and max(tv) <= max(d0, d1) + 1e-6 * abs(d1 - d0)):
        # (nice() may land an end a few ulps inside the data through float rounding of k*step - C14's allowance)
        raise Violation("domain-does-not-cover-data", "derived domain [%r, %r], data span [%r, %r]" % (d0, d1, min(tv), max(tv)))
    deg = d0 == d1
    if not deg and d1 < d0:
        raise Violation("axis-decreasing", "domain %r" % ([d0, d1],))
    f = (lambda t: 0.0) if deg else (lambda t: (t - d0) / (d1 - d0) * L)
    pad = o.get("labelPadding", DEFAULT_PAD)
    plr, ptb = pad["left"] + pad["right"], pad["top"] + pad["bottom"]
    exp = []
    heights = []
    for x in data:
        W, H, txt = x.get("width", 50), 13.0, (x.get("text") or None)
        if horiz:
            opt = [(W + plr, H + ptb)]
        elif txt:
            opt = [(W + ptb, H + plr), (W + plr, H + ptb)]
        else:
            opt = [(H + ptb, W + plr)]
        exp.append((f(tau(kind, x["time"], today)), opt, txt))
    a = (lambda p: p[0]) if horiz else (lambda p: p[1])
    c = (lambda p: p[1]) if horiz else (lambda p: p[0])
    sgn = -1 if d in ("up", "left") else 1
    nodeH = max((lb["h"] if horiz else lb["w"]) for lb in P["labels"])
    expH = max((e[1][0][1] if horiz else e[1][0][0]) for e in exp)
    if abs(nodeH - expH) > 1e-9:
        raise Violation("box-size", "largest across-axis box extent %r, expected %r (size plus padding)" % (nodeH, expH))
    lg = o.get("layerGap", 60)
    gap = lg + nodeH
    ptol = 2e-6 if backend == "tex" else 1e-6
    got = []
    for i, ((start, segs), col) in enumerate(P["links"]):
        S = (float(start[0]), float(start[1]))
        if abs(c(S)) > 1e-9:
            raise Violation("link-start-off-axis", "link %d starts at %r" % (i, S))
        dot = P["dots"][i][0]
        if abs(a(dot) - a(S)) > ptol * max(1, abs(a(S))) or abs(c(dot)) > 1e-9:
            raise Violation("link-start-not-at-dot", "link %d starts at %r, dot %d is at %r" % (i, S, i, dot))
        kinds = [s[0] for s in segs]
        K = (len(segs) - 1) // 2
        if kinds != ["C"] + ["L", "C"] * K:
            raise Violation("link-shape", "link %d is %s" % (i, " ".join(kinds)))
        prev = start
        for s in segs:
            if s[1] != prev:
                raise Violation("link-discontinuous", "link %d: a piece starts at %r, the previous one ended at %r" % (i, s[1], prev))
            prev = s[-1]
        for k in range(K + 1):
            endc = segs[2 * k][-1]
            posk = sgn * (k * gap + lg)
            if abs(c((float(endc[0]), float(endc[1]))) - posk) > 1e-6:
                raise Violation("link-layer-offset", "link %d: curve %d ends at %r, expected across-axis offset %r" % (i, k, endc, posk))
            if k < K:
                l = segs[2 * k + 1]
                p1, p2 = (float(l[1][0]), float(l[1][1])), (float(l[2][0]), float(l[2][1]))
                if abs(a(p1) - a(p2)) > 1e-9 or abs(c(p2) - sgn * ((k + 1) * gap)) > 1e-6:
                    raise Violation("link-stub-segment", "link %d: stub segment %r" % (i, l))
        # "passes through the datum's stubs layer by layer": the k-th way-point sits at the position the engine gave
        # the k-th item of this datum's chain (stubs from the axis outward, then the label itself)
        along = [a((float(segs[2 * k][-1][0]), float(segs[2 * k][-1][1]))) for k in range(K + 1)]
        chains = _chains(tl_obj)
        if chains is not None:
            def fits(ch):
                return len(ch) == K + 1 and abs(ch[0][0] - a(S)) <= ptol * max(1, abs(a(S))) and all(abs(p - q[1]) <= 1e-6 for p, q in zip(along, ch))
            if not (i < len(chains) and fits(chains[i])) and not any(fits(ch) for ch in chains):
                mine = chains[i] if i < len(chains) else None
                raise Violation("link-misses-stubs", "link %d has way-points at %r along the axis; the datum's chain (root ideal position, item positions) is %r" % (i, along, mine))
        E = (float(prev[0]), float(prev[1]))
        lb = P["labels"][i]
        ox, oy = lb["origin"]
        mid = {"right": (ox, oy + lb["h"] / 2), "left": (ox + lb["w"], oy + lb["h"] / 2), "up": (ox + lb["w"] / 2, oy + lb["h"]), "down": (ox + lb["w"] / 2, oy)}[d]
        if abs(mid[0] - E[0]) > 1 + 1e-9 or abs(mid[1] - E[1]) > 1 + 1e-9:
            raise Violation("link-end-not-at-box", "link %d ends at %r, the axis-facing edge of box %d has its middle at %r" % (i, E, i, mid))
        got.append((a(S), (lb["w"], lb["h"]), lb["text"], K))
    # multiset comparison as a bipartite matching (tolerance windows of near-coincident data overlap, so a greedy
    # assignment can fail where a perfect matching exists)
    def compatible(e, g):
        pos, opt, txt = e
        if abs(g[0] - pos) > ptol * max(1, abs(pos)) or g[1] not in opt:
            return False
        if backend == "svg":
            return (g[2] or None) == txt
        return (g[2] is None and txt is None) or (g[2] is not None and txt is not None and texrel.allowed(txt, g[2]))

    adj = [[j for j, g in enumerate(got) if compatible(e, g)] for e in exp]
    match_of_got = [-1] * n

    def augment(i, seen):
        for j in adj[i]:
            if j in seen:
                continue
            seen.add(j)
            if match_of_got[j] < 0 or augment(match_of_got[j], seen):
                match_of_got[j] = i
                return True
        return False

    import sys as _sys
    _old = _sys.getrecursionlimit()
    _sys.setrecursionlimit(max(_old, 4 * n + 1000))
    try:
        for i in sorted(range(n), key=lambda i: len(adj[i])):
            if not augment(i, set()):
                pos, opt, txt = exp[i]
                near = sorted(got, key=lambda g: abs(g[0] - pos))[:2]
                raise Violation("datum-not-drawn", "no dot/box for datum at axis position %r with size in %r and text %r; nearest drawn: %r" % (pos, opt, txt, near))
    finally:
        _sys.setrecursionlimit(_old)
    for p, r, col in P["dots"]:
        if not (-1e-6 * L - 1e-9 <= a(p) <= L * (1 + 1e-6) + 1e-9):
            raise Violation("dot-off-axis-line", "dot at %r, axis runs 0..%r" % (p, L))
        if r != o.get("dotRadius", 3):
            raise Violation("dot-radius", "%r" % r)
    if o.get("showTicks", True):
        if P["ticks"] is None:
            raise Violation("ticks-missing", "showTicks is on")
        fmt = lib_call(tl_obj.options["scale"].tickFormat)
        last = None
        for (p, text) in P["ticks"]:
            if abs(c(p)) > 1e-9:
                raise Violation("tick-off-axis", "%r" % (p,))
            lo_t, hi_t = (-1e-6 - 1e-5 * L, L + 1e-6 + 1e-5 * L)  # float noise of tick arithmetic, invisible in a drawing
            if backend == "tex":
                lo_t -= 1
            if kind != "linear" and not deg and abs(d1 - d0) < 10000:
                # sub-second tick spacing: C16 allows ticks within a millisecond of the domain
                lo_t -= L / abs(d1 - d0)
                hi_t += L / abs(d1 - d0)
            if not (lo_t <= a(p) <= hi_t):
                raise Violation("tick-outside-axis", "tick %r at %r, axis 0..%r" % (text, p, L))
            if deg:
                continue
            if last is not None and (a(p) < last if backend == "tex" else a(p) <= last):
                raise Violation("ticks-not-increasing", "%r after %r" % (a(p), last))
            last = a(p)
            if backend == "svg":
                t = d0 + a(p) / L * (d1 - d0)
                if kind == "linear":
                    dec = len(text.split(".")[1]) if "." in text else 0
                    try:
                        v = float(text)
                    except ValueError:
                        raise Violation("tick-text", "%r" % text)
                    if abs(v - t) > 1e-6 * max(1, abs(t)) + 0.5 * 10 ** (-dec):
                        raise Violation("tick-text", "tick at %r reads %r, position corresponds to %r" % (a(p), text, t))
                else:
                    tt = tg.EPOCH + timedelta(milliseconds=round(t))
                    if lib_call(fmt, tt) != text:
                        raise Violation("tick-text", "tick at %r reads %r, the instant there (%s) formats as %r" % (a(p), text, tt, fmt(tt)))
        if backend == "tex" and not deg:
            # TikZ prints tick origins with %i: compare with the truncation of where the scale's own ticks belong
            # (the tick list itself is C13/C16's business; here the pairing of text and position is judged)
            # (the SVG ticks of the same spec have been judged exactly - text against the instant at the printed
            # position; how many ticks a back-end asks for is its own business)
            if svg_ticks is not None:
                if len(svg_ticks) != len(P["ticks"]):
                    raise Violation("tick-count", "%d ticks in the TikZ export, %d in the SVG export of the same timeline" % (len(P["ticks"]), len(svg_ticks)))
                for (p, text), (sp, stext) in zip(P["ticks"], svg_ticks):
                    if text != stext:
                        raise Violation("tick-text", "TikZ tick at %r reads %r, the SVG tick there reads %r" % (a(p), text, stext))
                    if abs(a(p) - int(a(sp))) > 1e-9:
                        raise Violation("tick-position", "TikZ tick %r drawn at %r, belongs at %r (truncated %r)" % (text, a(p), a(sp), int(a(sp))))
    elif P["ticks"] is not None:
        raise Violation("ticks-shown", "showTicks is off")
    return dict(got=got, nodeH=nodeH, gap=gap, lg=lg, sgn=sgn, L=L, deg=deg, f=f, maxlayer=max(g[3] for g in got))


def check_c08(spec, P, info):
    o = effective_opts(spec)
    d = o.get("direction", "right")
    lg = info["lg"]
    B = [(lb["origin"][0], lb["origin"][1], lb["origin"][0] + lb["w"], lb["origin"][1] + lb["h"]) for lb in P["labels"]]
    n = len(B)
    order = sorted(range(n), key=lambda i: B[i][0])
    for ii in range(n):
        i = order[ii]
        x0, y0, x1, y1 = B[i]
        for jj in range(ii + 1, n):
            j = order[jj]
            u0, v0, u1, v1 = B[j]
            if u0 > x1:
                break
            if y0 <= v1 and v0 <= y1:
                raise Violation("boxes-intersect", "boxes %r and %r" % (B[i], B[j]))
    byl = {}
    for (x0, y0, x1, y1), g in zip(B, info["got"]):
        near = {"right": x0, "left": -x1, "up": -y1, "down": y0}[d]
        far = {"right": x1, "left": -x0, "up": -y0, "down": y1}[d]
        if near < lg - 1 - 1e-9:
            raise Violation("box-on-wrong-side-or-too-close", "box %r: near edge %r from the axis on side %s, layer gap %r" % ((x0, y0, x1, y1), near, d, lg))
        m = byl.setdefault(g[3], [near, far])
        m[0] = min(m[0], near)
        m[1] = max(m[1], far)
    ks = sorted(byl)
    for k1, k2 in zip(ks, ks[1:]):
        if not byl[k1][1] < byl[k2][0]:
            raise Violation("layers-interleave", "layer %d reaches %r, layer %d starts at %r" % (k1, byl[k1][1], k2, byl[k2][0]))


def check_c09(S, T, spec):
    for topic, bucket, msg in list(S.get("problems", [])) + list(T.get("problems", [])):
        raise Violation(bucket, msg)
    for key in ("axis", "main"):
        if S[key] != T[key]:
            raise Violation("c09-" + key, "SVG %r, TikZ %r" % (S[key], T[key]))
    if len(S["labels"]) != len(T["labels"]) or len(S["links"]) != len(T["links"]) or len(S["dots"]) != len(T["dots"]):
        raise Violation("c09-counts", "SVG %d/%d/%d, TikZ %d/%d/%d boxes/links/dots" % (len(S["labels"]), len(S["links"]), len(S["dots"]), len(T["labels"]), len(T["links"]), len(T["dots"])))
    for i, (s, t) in enumerate(zip(S["labels"], T["labels"])):
        for k in ("origin", "w", "h", "fill", "border", "textcolor"):
            if k == "textcolor" and s["text"] is None:
                continue
            if s[k] != t[k]:
                raise Violation("c09-box-" + k, "box %d: SVG %r, TikZ %r" % (i, s[k], t[k]))
        if (s["text"] is None) != (t["text"] is None):
            raise Violation("c09-text-presence", "box %d: SVG %r, TikZ %r" % (i, s["text"], t["text"]))
        if s["text"] is not None and not texrel.allowed(s["text"], t["text"]):
            raise Violation("c09-text", "box %d: SVG %r, TikZ %r" % (i, s["text"], t["text"]))
    for i, ((s, sc), (t, tc)) in enumerate(zip(S["links"], T["links"])):
        if s != t:
            raise Violation("c09-link-geometry", "link %d: SVG %r, TikZ %r" % (i, s, t))
        if sc != tc:
            raise Violation("c09-link-colour", "link %d: SVG %r, TikZ %r" % (i, sc, tc))
    for i, (s, t) in enumerate(zip(S["dots"], T["dots"])):
        if abs(s[0][0] - t[0][0]) > 1e-6 or abs(s[0][1] - t[0][1]) > 1e-6:
            raise Violation("c09-dot-position", "dot %d: SVG %r, TikZ %r" % (i, s[0], t[0]))
        if s[1] != t[1]:
            raise Violation("c09-dot-radius", "dot %d: SVG %r, TikZ %r" % (i, s[1], t[1]))
        if s[2] != t[2]:
            raise Violation("c09-dot-colour", "dot %d: SVG %r, TikZ %r" % (i, s[2], t[2]))
    if (S["ticks"] is None) != (T["ticks"] is None):
        raise Violation("c09-ticks-presence", "")
    if S["ticks"] is not None:
        if len(S["ticks"]) != len(T["ticks"]):
            raise Violation("c09-tick-count", "SVG %d, TikZ %d" % (len(S["ticks"]), len(T["ticks"])))
        for (sp, stx), (tp, ttx) in zip(S["ticks"], T["ticks"]):
            if stx != ttx:
                raise Violation("c09-tick-text", "SVG %r, TikZ %r" % (stx, ttx))
            if tuple(float(int(v)) for v in sp) != tp:
                raise Violation("c09-tick-position", "SVG %r, TikZ %r (expected the truncation)" % (sp, tp))
