"""Fresh-process reference for C10: export exactly one timeline, alone, and print it."""
import json
import sys


def main():
    req = json.loads(sys.stdin.read())
    from vlib import tl

    doc = tl.export(req["spec"], req["backend"])
    sys.stdout.write(json.dumps(dict(doc=doc)))


if __name__ == "__main__":
    main()
