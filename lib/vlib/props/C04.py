"""C04 - layering conserves labels, builds complete stub chains, respects capacity."""
from fractions import Fraction as F

from hypothesis import strategies as st

from vlib import engine
from vlib.core import Violation, engine_limits, guarded, lib_call

ID = "C04"
DESIGN_REF = "3/C04"
RULE = (
    "Label multisets of C01 (plus 1-2 label sets, labels wider than a layer, identical positions, stub width larger than labels) "
    "driven (a) through Force.compute()/getLayers() and (b) directly through Distributor(options).distribute(nodes) with "
    "layerWidth in {None, 0, 20..3000}. Structural invariants: every label in exactly one layer, label layers contiguous from 0, "
    "complete mutually linked stub chains with the label's position, payload object and the configured stub width, no other items, "
    "getLayers() == the layering by layerIndex. Capacity predicate in exact rationals (one layer without a width / when the "
    "labels fit the density budget; with 'overlap' and >= 3 labels over budget: >= 2 layers, each within budget or holding <= 2 "
    "labels). Non-trivial: the result has >= 2 layers; distinct = distinct spec hash."
)
ASSUMPTIONS = [
    "required width versus budget within 1e-9 relative is borderline and the capacity clause is not judged",
    "trailing empty layers returned by the 'simple' algorithm are tolerated (the property speaks of labels)",
]
MIN_FRACTIONS = {"mode:force": 0.3, "mode:distributor": 0.3, "layers>=2": 0.25, "alg:simple": 0.08, "alg:none": 0.08, "over-budget-layer-with<=2-labels": 0.02, "label-wider-than-layer": 0.01}


def budget(tier):
    return dict(examples=500, shards=4) if tier == "quick" else dict(examples=5000, shards=16)


@st.composite
def strategy_(draw, tier):
    small = draw(st.integers(0, 9)) < 2
    if small:
        lbls = draw(st.lists(st.tuples(engine._num(-50, 600), engine.WIDTHS).map(list), min_size=1, max_size=3))
        opts = draw(engine.options(lbls, True))
    else:
        spec = draw(engine.layout_spec(tier, bounds_emphasis=True))
        lbls, opts = spec["labels"], spec["opts"]
    mode = draw(st.sampled_from(["force", "distributor"]))
    out = dict(labels=lbls, opts=opts, mode=mode)
    if mode == "force" and not small and spec.get("via"):
        out["via"] = spec["via"]
        if "first_spacing" in spec:
            out["first_spacing"] = spec["first_spacing"]
    if not small and spec.get("late_width"):
        out["late_width"] = True
    if mode == "distributor":
        o = {k: v for k, v in opts.items() if k in ("algorithm", "density", "nodeSpacing", "stubWidth")}
        lw = draw(st.sampled_from(["d", None, 0, "fromopts", "fromopts", "fromopts"]))
        if lw == "fromopts":
            lo, hi = opts.get("minPos", 0), opts.get("maxPos")
            lw = (hi - lo) if (lo is not None and hi is not None) else draw(st.integers(20, 3000))
        if lw != "d":
            o["layerWidth"] = lw
        out["opts"] = o
    return out


def strategy(tier):
    return strategy_(tier)


DIST_DEFAULTS = dict(algorithm="overlap", layerWidth=1000, density=0.75, nodeSpacing=3, stubWidth=1)


def check(spec, ctx):
    from labella.distributor import Distributor
    from labella.force import Force

    lbls = spec["labels"]
    mode = spec["mode"]
    ctx.event("mode:" + mode)

    def thunk():
        nodes = engine.build_nodes(lbls, spec.get("late_width", False))
        if mode == "force":
            f = engine.make_force(spec)
            f.nodes(nodes)
            f.compute()
            engine.reconfigure(f, spec)
            return nodes, f.getLayers(), f
        d = Distributor(dict(spec["opts"]))
        return nodes, d.distribute(nodes), None

    secs, budget = engine_limits(len(lbls))
    nodes, layers, f = guarded(lambda: lib_call(thunk), ctx, secs, budget)
    if mode == "force":
        O = engine.merged(spec["opts"])
        lw = None if (O["minPos"] is None or O["maxPos"] is None) else F(O["maxPos"]) - F(O["minPos"])
    else:
        O = dict(DIST_DEFAULTS)
        O.update(spec["opts"])
        lw = None if O["layerWidth"] is None else F(O["layerWidth"])
    alg = O["algorithm"]
    ctx.event("alg:" + alg)
    if not isinstance(layers, list) or not all(isinstance(l, list) for l in layers):
        raise Violation("layers-not-reported", "layering is %r" % (type(layers).__name__ if not isinstance(layers, list) else "list of non-lists"))
    where = {}
    for k, layer in enumerate(layers):
        for nd in layer:
            if id(nd) in where:
                raise Violation("item-in-two-layers", "an item appears in layers %d and %d" % (where[id(nd)], k))
            where[id(nd)] = k
            if mode == "force" and nd.layerIndex != k:
                raise Violation("layerIndex-mismatch", "item in reported layer %d has layerIndex %r" % (k, nd.layerIndex))
    # conservation
    label_layer = {}
    for i, nd in enumerate(nodes):
        if id(nd) not in where:
            raise Violation("label-lost", "label %d (%r) is in no layer" % (i, lbls[i]))
        label_layer[i] = where[id(nd)]
        if nd.isStub():
            raise Violation("label-became-stub", "label %d has a child" % i)
    used = sorted(set(label_layer.values()))
    if used != list(range(len(used))):
        raise Violation("layers-not-contiguous", "labels occupy layers %r" % used)
    for k in range(len(used), len(layers)):
        if layers[k]:
            raise Violation("layers-not-contiguous", "layer %d holds only stubs" % k)
    # stub chains
    nstubs = 0
    for i, nd in enumerate(nodes):
        k = label_layer[i]
        cur, depth = nd, k
        while cur.parent is not None:
            stb = cur.parent
            depth -= 1
            nstubs += 1
            if depth < 0:
                raise Violation("stub-chain-too-long", "label %d in layer %d has more than %d stubs" % (i, k, k))
            if stb.child is not cur:
                raise Violation("stub-chain-unlinked", "label %d: stub.child is not the item it stands for" % i)
            if where.get(id(stb)) != depth:
                raise Violation("stub-in-wrong-layer", "label %d in layer %d: stub #%d is in layer %r, expected %d" % (i, k, k - depth, where.get(id(stb)), depth))
            if stb.idealPos != nd.idealPos:
                raise Violation("stub-position", "label %d: stub idealPos %r != %r" % (i, stb.idealPos, nd.idealPos))
            if stb.data is not nd.data and stb.data != nd.data:
                raise Violation("stub-payload", "label %d: stub data %r" % (i, stb.data))
            if stb.width != O["stubWidth"]:
                raise Violation("stub-width", "label %d: stub width %r, configured %r" % (i, stb.width, O["stubWidth"]))
            cur = stb
        if depth != 0:
            raise Violation("stub-chain-incomplete", "label %d in layer %d has %d stubs" % (i, k, k - depth))
    total = sum(len(l) for l in layers)
    if total != len(nodes) + nstubs:
        raise Violation("extra-items", "%d items reported, %d labels + %d chained stubs" % (total, len(nodes), nstubs))
    if mode == "force":
        rebuilt = engine.rebuild_layers(nodes)
        for k, layer in enumerate(layers):
            if {id(x) for x in layer} != {id(x) for x in rebuilt.get(k, [])}:
                raise Violation("getLayers-differs", "layer %d of getLayers() differs from the layerIndex/parent-chain layering" % k)
    # capacity
    nl = len(used)
    ctx.event("layers>=2" if nl >= 2 else "layers=1")
    if nl >= 4:
        ctx.event("layers>=4")
    req = sum(F(w) for _, w in lbls) + F(O["nodeSpacing"]) * (len(lbls) - 1)
    if lw is not None and lw > 0 and any(F(w) > lw for _, w in lbls):
        ctx.event("label-wider-than-layer")
    if alg == "none":
        if nl != 1:
            raise Violation("split-with-algorithm-none", "%d layers" % nl)
    elif lw is None or lw == 0:
        if nl != 1:
            raise Violation("split-without-layer-width", "%d layers although there is no upper bound / layer width" % nl)
        ctx.event("no-layer-width")
    elif lw > 0:
        bud = F(O["density"]) * lw
        if abs(req - bud) <= F(1, 10 ** 9) * max(1, abs(bud)):
            ctx.event("borderline-budget (capacity not judged)")
        elif req < bud:
            ctx.event("fits-budget")
            if nl != 1:
                raise Violation("split-though-fits", "required %s <= budget %s but %d layers" % (float(req), float(bud), nl))
        else:
            ctx.event("over-budget")
            if alg == "overlap" and len(lbls) >= 3:
                if nl < 2:
                    raise Violation("not-split", "required %s > budget %s, %d labels, one layer" % (float(req), float(bud), len(lbls)))
                for k, layer in enumerate(layers):
                    labs = [x for x in layer if not x.isStub()]
                    wsum = sum(F(x.width) for x in layer) + F(O["nodeSpacing"]) * (len(layer) - 1)
                    if wsum > bud * (1 + F(1, 10 ** 9)):
                        if len(labs) > 2:
                            raise Violation("layer-over-budget", "layer %d: %d labels, %d stubs need %s > budget %s" % (k, len(labs), len(layer) - len(labs), float(wsum), float(bud)))
                        ctx.event("over-budget-layer-with<=2-labels")
    return nl >= 2
