"""C18 - results do not depend on the process's local time zone."""
import atexit
import json
import os
import select
import subprocess
import sys
from datetime import datetime, timedelta

from hypothesis import strategies as st

from vlib import core, timegen as tg
from vlib.core import HarnessError, Violation
from vlib.props.C12 import a_range

ID = "C18"
DESIGN_REF = "3/C18"
ZONES = ["UTC", "America/New_York", "Asia/Kolkata", "Australia/Lord_Howe", "Pacific/Chatham"]
RULE = (
    "Differential across process configurations: five long-lived worker processes started with TZ = UTC, America/New_York, "
    "Asia/Kolkata, Australia/Lord_Howe, Pacific/Chatham each evaluate the same generated case - time-scale cases (ticks, tick "
    "texts, nice domain, mapped positions, inverse, domain, copy; domains and counts as C14-C16), calendar cases (floor, ceil, "
    "round, offset for all seven units, range, day of year; instants as C17) and date/datetime timelines (SVG and TikZ exports; "
    "specs as C07, time-only data excluded) - with a share of instants placed within two days of a daylight-saving transition (60 % of those within two hours of a real "
    "transition of New York, Lord Howe or Chatham read from the installed zoneinfo; as lower or as upper end of a scale domain). "
    "All five answers must be byte-identical. Non-trivial: every case (India's +5:30 offset is in the set); additionally counted: "
    "cases within two days of a DST transition of one of the zones. distinct = distinct spec hash."
)
ASSUMPTIONS = [
    "zoneinfo files for the five zones are installed (their absence is a harness error, exit 2)",
    "time-only data are excluded: the library anchors them to date.today(), the local calendar date, which legitimately differs between zones",
    "each worker proves its zone took effect by reporting its UTC offsets for January and July",
]
MIN_FRACTIONS = {"kind:scale": 0.2, "kind:interval": 0.2, "kind:timeline": 0.15, "near-dst-transition": 0.1}


def budget(tier):
    return dict(examples=350, shards=4) if tier == "quick" else dict(examples=6000, shards=16)


# ---------------------------------------------------------------- workers

_workers = None
_owner = None  # pid that started the workers (forked shards must start their own)
EXPECT_JAN = {"UTC": 0, "America/New_York": -18000, "Asia/Kolkata": 19800, "Australia/Lord_Howe": 39600, "Pacific/Chatham": 49500}


def _start():
    global _workers, _owner
    _owner = os.getpid()
    ws = []
    for z in ZONES:
        if z != "UTC" and not os.path.exists(os.path.join("/usr/share/zoneinfo", z)):
            raise HarnessError("zoneinfo for %s is not installed" % z)
        env = dict(os.environ, TZ=z)
        p = subprocess.Popen([sys.executable, "-B", "-m", "vlib.tzworker"], stdin=subprocess.PIPE, stdout=subprocess.PIPE, env=env, text=True, bufsize=1)
        hello = json.loads(_readline(p, 60))
        if hello.get("off_jan") != EXPECT_JAN[z]:
            raise HarnessError("worker for TZ=%s reports January offset %r" % (z, hello.get("off_jan")))
        ws.append((z, p, hello))
    _workers = ws
    atexit.register(_stop)


def _stop():
    global _workers
    if _owner != os.getpid():
        return
    for z, p, _ in _workers or []:
        try:
            p.stdin.close()
            p.wait(timeout=2)
        except Exception:
            p.kill()
    _workers = None


def _readline(p, timeout):
    r, _, _ = select.select([p.stdout], [], [], timeout)
    if not r:
        raise HarnessError("time-zone worker did not answer within %ds" % timeout)
    line = p.stdout.readline()
    if not line:
        raise HarnessError("time-zone worker exited")
    return line


def ask_all(spec):
    if _workers is None or _owner != os.getpid():
        _start()
    line = json.dumps(spec) + "\n"
    for z, p, _ in _workers:
        p.stdin.write(line)
        p.stdin.flush()
    out = {}
    for z, p, _ in _workers:
        raw = _readline(p, 600)
        try:
            res = json.loads(raw)
        except ValueError as e:
            raise HarnessError("worker TZ=%s sent unparsable answer (%s): %r" % (z, e, raw[max(0, getattr(e, "pos", 0) - 80):getattr(e, "pos", 0) + 80]))
        if "error" in res:
            raise HarnessError("worker TZ=%s: %s" % (z, res["error"]))
        out[z] = res["ok"]
    return out


# ---------------------------------------------------------------- generator

_TRANSITIONS = None


def transitions():
    """(zone, local wall-clock datetime at which the old offset ends, shift in minutes) for every offset change of the
    non-UTC zones in 1970-2037, read from the installed zoneinfo: the instants around which a naive wall-clock value does
    not exist (spring forward) or exists twice (fall back) in that zone"""
    global _TRANSITIONS
    if _TRANSITIONS is None:
        from datetime import timezone
        from zoneinfo import ZoneInfo

        out = []
        for z in ZONES[1:]:
            tz = ZoneInfo(z)
            off = lambda u: u.astimezone(tz).utcoffset()
            u = datetime(1970, 1, 1, tzinfo=timezone.utc)
            end = datetime(2038, 1, 1, tzinfo=timezone.utc)
            prev = off(u)
            while u < end:
                nxt = u + timedelta(days=1)
                cur = off(nxt)
                if cur != prev:
                    lo, hi = u, nxt
                    while hi - lo > timedelta(minutes=1):
                        mid = lo + (hi - lo) / 2
                        mid = mid.replace(second=0, microsecond=0)
                        if off(mid) == prev:
                            lo = mid
                        else:
                            hi = mid
                    out.append((z, (hi + prev).replace(tzinfo=None), int((cur - prev).total_seconds() // 60)))
                    prev = cur
                u = nxt
        _TRANSITIONS = out
    return _TRANSITIONS


@st.composite
def near_dst(draw):
    """an instant near a daylight-saving transition of one of the zones. 60 %: around a real transition taken from the
    installed zoneinfo (within two hours of it, most of them inside the skipped / repeated wall-clock hour); the rest:
    generic Sundays of the transition months (covers rule sets the table does not list), half of them at 01:00-03:59"""
    if draw(st.integers(0, 9)) < 6:
        z, wall, shift = draw(st.sampled_from(transitions()))
        mins = draw(st.sampled_from([-120, -61, -60, -59, -45, -40, -30, -15, -1, 0, 0, 1, 15, 29, 30, 31, 44, 45, 59, 60, 61, 90, 120, abs(shift), abs(shift) - 1]))
        t = wall + timedelta(minutes=mins, seconds=draw(st.sampled_from([0, 0, 0, 59])), milliseconds=draw(st.sampled_from([0, 0, 0, 1, 999])))
        if 1970 <= t.year <= 2037:
            return tg.iso(t)
    y = draw(st.integers(1970, 2037))
    mo = draw(st.sampled_from([3, 4, 9, 10, 11]))
    first = datetime(y, mo, 1)
    sun1 = first + timedelta(days=(6 - first.weekday()) % 7)
    sunday = sun1 + timedelta(days=7 * draw(st.integers(0, 4)))
    if sunday.month != mo:
        sunday -= timedelta(days=7)
    if draw(st.booleans()):
        t = sunday + timedelta(hours=draw(st.sampled_from([1, 2, 2, 2, 3, 3])), minutes=draw(st.sampled_from([0, 1, 15, 29, 30, 44, 45, 50, 59])), seconds=draw(st.sampled_from([0, 0, 59])), milliseconds=draw(st.sampled_from([0, 0, 1, 999])))
    else:
        t = sunday + timedelta(hours=draw(st.integers(-48, 48)), minutes=draw(st.sampled_from([0, 15, 30, 45, 59])), milliseconds=draw(st.sampled_from([0, 0, 1, 999])))
    return tg.iso(t)


def an_instant():
    return st.one_of(tg.instant(), tg.instant(), near_dst())


@st.composite
def scale_case(draw):
    if draw(st.integers(0, 9)) < 4:
        # the transition instant is either end of the domain (nice() floors the lower and ceils the upper end through
        # different code), and half of the spans are hours to a few days: the spans whose ticks are multi-step hour/day
        # intervals, which nice() walks boundary by boundary (seeded change C18-G needs exactly that at the upper end)
        t0 = tg.parse(draw(near_dst()))
        if draw(st.booleans()):
            sp = int(draw(st.sampled_from([3600e3, 6 * 3600e3, 17 * 3600e3, 86400e3, 40 * 3600e3, 3 * 86400e3, 10 * 86400e3])) * draw(st.floats(0.5, 1.5)))
        else:
            sp = draw(tg.span_ms(1, int(3 * 365 * 86400e3)))
        if draw(st.booleans()):
            t0 = t0 - timedelta(milliseconds=sp)
        d0, d1 = tg.iso(t0), tg.iso(t0 + timedelta(milliseconds=sp))
        dst = True
    else:
        d0, d1, sp = draw(tg.time_domain())
        dst = False
    if draw(st.integers(0, 9)) < 3:
        d0, d1 = d1, d0
    m = draw(st.one_of(st.none(), st.integers(2, 50), st.sampled_from([2, 5, 10, 20])))
    r = draw(a_range())
    fr = [draw(st.floats(-1, 2)) for _ in range(2)] + [0.5]
    ys = [draw(st.floats(-100, 1000).map(lambda v: round(v, 3))), r[0] + (r[1] - r[0]) * 0.25]
    return dict(kind="scale", d0=d0, d1=d1, m=m, r=r, fr=fr, ys=ys, dst=dst)


@st.composite
def interval_case(draw):
    t = draw(an_instant())
    u = draw(st.sampled_from(tg.UNITS))
    from vlib.props.C17 import SPAN_S

    t1 = tg.parse(t) + timedelta(seconds=int(draw(st.floats(0, 1)) * SPAN_S[u]))
    if t1.year > 2400:
        t1 = tg.parse(t)
    return dict(kind="interval", t=t, t1=tg.iso(t1), unit=u, k=draw(st.integers(0, 400)), dt=draw(st.integers(1, 12)))


def _inject_dst(spec, instants):
    """a datetime timeline some of whose data sit on / next to a daylight-saving transition"""
    spec = dict(spec, domain=None)
    spec["data"] = [dict(d) for d in spec["data"]]
    for k, t in enumerate(instants):
        if k < len(spec["data"]):
            spec["data"][k]["time"] = t
        else:
            spec["data"].append({"time": t, "width": 40})
    return dict(kind="timeline", tl=spec, dst=True)


def strategy(tier):
    parts = [scale_case(), interval_case()]
    try:
        from vlib import tl

        parts.append(tl.timeline_spec(tier, kinds=("datetime", "date"), max_items=12).map(lambda s: dict(kind="timeline", tl=s)))
        parts.append(st.builds(_inject_dst, tl.timeline_spec(tier, kinds=("datetime",), max_items=8), st.lists(near_dst(), min_size=1, max_size=4)))
    except ImportError:
        pass
    return st.one_of(*parts)


def _near_transition(spec):
    if spec["kind"] == "scale":
        return bool(spec.get("dst"))
    if spec["kind"] == "interval":
        t = tg.parse(spec["t"])
        return t.month in (3, 4, 9, 10, 11) and (t.weekday() in (5, 6, 0))
    return bool(spec.get("dst"))


def check(spec, ctx):
    res = ask_all(spec)
    ctx.event("kind:" + spec["kind"])
    if _near_transition(spec):
        ctx.event("near-dst-transition")
    ref = res[ZONES[0]]
    for z in ZONES[1:]:
        if res[z] != ref:
            for (la, va), (lb, vb) in zip(ref, res[z]):
                if (la, va) != (lb, vb):
                    raise Violation("tz-dependent:" + la.split(".")[-1], "%s differs: TZ=UTC gives %s, TZ=%s gives %s" % (la, va[:160], z, vb[:160]))
            raise Violation("tz-dependent", "answers differ in length between UTC and %s" % z)
    if any(v.startswith("VIOLATION nontermination") for _, v in ref):
        raise Violation("nontermination", "a computation did not terminate within the line budget (in every zone)")
    if ctx.extra.get("zones") is None:
        ctx.extra["zones"] = {z: dict(jan=h["off_jan"], jul=h["off_jul"]) for z, _, h in _workers}
    return True
