"""C16 - time ticks never fail, increase, stay in the domain, sit on calendar boundaries."""
from hypothesis import strategies as st

from vlib import timegen as tg
from vlib.core import Violation, guarded, lib_call

ID = "C16"
DESIGN_REF = "3/C16"
ROTATE_TZ = True  # shards run under different local time zones (the property must hold in all of them)
RULE = (
    "Time domains 1900-2200, spans 1 ms..250 years with the spans around every row of the step table over-represented, start "
    "instants biased to the 28th-31st, 29 Feb, 31 Dec, week ends and instants just before/after boundaries; both orientations; "
    "counts 2..50 and the default. Oracle: returns a list (no exception, watchdog); strictly increasing; inside the domain (+-1 ms "
    "for sub-second spacing); every tick on the calendar boundary implied by the smallest gap, tested independently on datetime "
    "fields; max gap <= 2 min gap; m/2.4 - 1 <= count <= 2.4 m + 1, or one tick per ms for a domain shorter than m ms. "
    "Non-trivial: >= 2 ticks; distinct = distinct spec hash."
)
ASSUMPTIONS = ["domains have millisecond resolution (the property's quantifier)"]
MIN_FRACTIONS = {"ticks>=2": 0.7, "reversed": 0.1, "span<m-ms": 0.005, "start-on-29-31": 0.1}
for _u in ("ms", "second", "minute", "hour", "day", "month", "year"):
    MIN_FRACTIONS["unit:" + _u] = 0.02


def budget(tier):
    return dict(examples=2500, shards=4) if tier == "quick" else dict(examples=40000, shards=16)


@st.composite
def case(draw):
    d0, d1, sp = draw(tg.time_domain())
    rev = draw(st.integers(0, 9)) < 3
    m = draw(st.one_of(st.none(), st.integers(2, 50), st.sampled_from([2, 3, 5, 10, 10, 20, 50])))
    m2 = draw(st.one_of(st.none(), st.integers(2, 50)))
    return dict(d0=d1 if rev else d0, d1=d0 if rev else d1, m=m, m2=m2)


def strategy(tier):
    return case()


def check(spec, ctx):
    from labella.scale import TimeScale

    d0, d1, m = tg.parse(spec["d0"]), tg.parse(spec["d1"]), spec["m"]
    t0, t1 = min(d0, d1), max(d0, d1)
    sp = tg.ms(t1) - tg.ms(t0)
    mm = 10 if m is None else m

    def run():
        s = TimeScale().domain([d0, d1])
        return s.ticks() if m is None else s.ticks(m)

    tk = guarded(lambda: lib_call(run), ctx)
    if "m2" in spec:
        # one scale object asked twice with different counts: each answer must be what a fresh scale gives
        m2 = spec["m2"]

        def reuse():
            s = TimeScale().domain([d0, d1])
            first = s.ticks() if m2 is None else s.ticks(m2)
            return first, (s.ticks() if m is None else s.ticks(m))

        first, second = guarded(lambda: lib_call(reuse), ctx)
        if second != tk:
            raise Violation("ticks-depend-on-earlier-call", "[%s, %s]: ticks(%r) after ticks(%r) on the same scale gives %d ticks, a fresh scale gives %d" % (d0, d1, m, m2, len(second), len(tk)))
    if not isinstance(tk, list):
        raise Violation("not-a-list", "ticks() returned %s" % type(tk).__name__)
    if d1 < d0:
        ctx.event("reversed")
    if t0.day >= 29:
        ctx.event("start-on-29-31")
    n = len(tk)
    if any(tk[i + 1] <= tk[i] for i in range(n - 1)):
        raise Violation("not-increasing", "[%s, %s] m=%r: %r" % (d0, d1, m, tk[:4]))
    gaps = [(tk[i + 1] - tk[i]) / tg.MS for i in range(n - 1)]
    sub = bool(gaps and min(gaps) < 1000) or sp < 1000 * mm
    tol = tg.MS if sub else tg.MS * 0
    for x in tk:
        if x < t0 - tol or x > t1 + tol:
            raise Violation("outside-domain", "[%s, %s] m=%r: tick %s" % (d0, d1, m, x))
    if gaps:
        g, G = min(gaps), max(gaps)
        u = tg.gran(g)
        ctx.event("unit:" + u)
        if u != "ms":
            for x in tk:
                if tg.ofloor(u, x) != x:
                    raise Violation("off-boundary", "[%s, %s] m=%r: tick %s is not on a %s boundary (smallest gap %d ms)" % (d0, d1, m, x, u, g))
        else:
            for x in tk:
                if x.microsecond % 1000:
                    raise Violation("off-boundary", "sub-millisecond tick %s" % x)
        if G > 2 * g + (2 if sub else 0):
            raise Violation("uneven-gaps", "[%s, %s] m=%r: gaps from %d to %d ms, e.g. %r" % (d0, d1, m, g, G, tk[:4]))
    if sp < mm:
        ctx.event("span<m-ms")
        if abs(n - (sp + 1)) > 1:
            raise Violation("count-short-domain", "[%s, %s] (%d ms) m=%r: %d ticks" % (d0, d1, sp, m, n))
    elif not (mm / 2.4 - 1 <= n <= 2.4 * mm + 1):
        raise Violation("count-range", "[%s, %s] (%d ms) m=%r: %d ticks" % (d0, d1, sp, m, n))
    ctx.event("ticks>=2" if n >= 2 else "ticks<2")
    return n >= 2


def _fuzz(ctx, tier, seed):
    """thorough-tier supplement: coverage-guided search over the same property function (DESIGN 1)"""
    if tier != "thorough":
        return
    import sys
    from vlib import fuzz

    fuzz.supplement(sys.modules[__name__], ctx, seed, runs=100000, procs=8, seed_inputs=[b'\x00\x01\x02\x03\x00\x01\x02\x03\x00\x01\x02\x03\x00\x01\x02\x03\x00\x01\x02\x03\x00\x01\x02\x03', b'\x00\x01\x02\x03\x04\x05\x06\x07\x08\t\n\x0b\x0c\r\x0e\x0f\x10\x11\x12\x13\x14\x15\x16\x17\x18\x19\x1a\x1b\x1c\x1d\x1e\x1f !"#$%&\''])


def extra(ctx, tier, seed):
    _fuzz(ctx, tier, seed)
