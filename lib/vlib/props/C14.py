"""C14 - nice() only widens a domain, by less than two tick steps, to round end points."""
import math
from fractions import Fraction as F

from hypothesis import strategies as st

from vlib import timegen as tg
from vlib.core import Violation, guarded, lib_call
from vlib.props.C13 import step_form, tick_domain

ID = "C14"
DESIGN_REF = "3/C14"
ROTATE_TZ = True  # shards run under different local time zones (the property must hold in all of them)
RULE = (
    "Linear domains and counts as in C13; time domains at ms resolution in 1900-2200, spans 10 ms..200 years, either orientation, "
    "default and explicit counts 2..50. Oracle: orientation preserved; no end moves inward (linear: beyond 1e-6 step of float "
    "noise; time: at all); each end moves outward by less than two tick steps (linear: step of the resulting domain's ticks, "
    "<= 2 step (1+1e-9); time: largest gap of the original domain's ticks, strict); round landing (linear: multiple of "
    "10^(floor(log10 step)-1); time: equal to its own calendar floor at the unit implied by the smallest tick gap, computed "
    "independently from datetime fields; sub-second: within 1 ms of a multiple of the gap). Runs under the hang watchdog. "
    "Non-trivial: at least one end actually moved; distinct = distinct spec hash."
)
ASSUMPTIONS = [
    "linear roundness unit is the power of ten below one tenth of the step (every multiple of step/10 is a multiple of it); see DESIGN 3/C14 for why the literal test would be a float-artefact false alarm",
]
MIN_FRACTIONS = {"kind:linear": 0.3, "kind:time": 0.3, "moved": 0.5, "time:reversed": 0.08, "time:unit:month": 0.01, "time:unit:year": 0.01, "time:unit:day": 0.01, "time:unit:ms": 0.01}


def budget(tier):
    return dict(examples=2000, shards=4) if tier == "quick" else dict(examples=30000, shards=16)


@st.composite
def time_case(draw):
    d0, d1, sp = draw(tg.time_domain(10, int(200 * 365 * 86400e3)))
    if draw(st.integers(0, 9)) < 3:
        d0, d1 = d1, d0
    m = draw(st.one_of(st.none(), st.none(), st.integers(2, 50), st.sampled_from([2, 5, 10, 20])))
    p0, p1, _ = draw(tg.time_domain(10, int(200 * 365 * 86400e3)))
    return dict(kind="time", d0=d0, d1=d1, m=m, p0=p0, p1=p1)


def strategy(tier):
    return st.one_of(tick_domain().map(lambda d: dict(d, kind="linear")), time_case())


def check_linear(spec, ctx):
    from labella.scale import LinearScale, d3_scale_linearTickRange

    a, b, m = spec["a"], spec["b"], spec["m"]
    s = lib_call(lambda: LinearScale().domain([a, b]))
    guarded(lambda: lib_call(LinearScale().domain([a, b]).nice, m), ctx)
    lib_call(s.nice, m)
    na, nb = s.domain()
    tk = lib_call(lambda: list(s.ticks(m)))
    stf = None
    if len(tk) >= 2:
        sf = step_form((tk[-1] - tk[0]) / (len(tk) - 1))
        if sf:
            stf = float(F(sf[0]) * F(10) ** sf[1])
    if stf is None:
        stf = lib_call(d3_scale_linearTickRange, [na, nb], m)[2]
    lo, hi, nlo, nhi = min(a, b), max(a, b), min(na, nb), max(na, nb)
    if (na < nb) != (a < b):
        raise Violation("linear-orientation", "[%r, %r] nice(%r) -> [%r, %r]" % (a, b, m, na, nb))
    if nlo > lo + 1e-6 * stf or nhi < hi - 1e-6 * stf:
        raise Violation("linear-inward", "[%r, %r] nice(%r) -> [%r, %r] (step %r)" % (a, b, m, na, nb, stf))
    if lo - nlo > 2 * stf * (1 + 1e-9) or nhi - hi > 2 * stf * (1 + 1e-9):
        raise Violation("linear-too-far", "[%r, %r] nice(%r) -> [%r, %r]: moved %r / %r with step %r" % (a, b, m, na, nb, lo - nlo, nhi - hi, stf))
    unit = 10.0 ** (math.floor(math.log10(stf) + 1e-9) - 1)
    for e in (na, nb):
        q = e / unit
        if abs(q - round(q)) > 1e-6 * max(1.0, abs(q)):
            raise Violation("linear-not-round", "[%r, %r] nice(%r) -> end %r is not a multiple of %r (step %r)" % (a, b, m, e, unit, stf))
    ctx.event("kind:linear")
    moved = (nlo != lo) or (nhi != hi)
    if moved:
        ctx.event("moved")
    return moved


def check_time(spec, ctx):
    from labella.scale import TimeScale

    d0, d1, m = tg.parse(spec["d0"]), tg.parse(spec["d1"]), spec["m"]
    dom = [d0, d1]

    def run():
        s = TimeScale().domain(list(dom))
        tk = s.ticks() if m is None else s.ticks(m)
        s.nice() if m is None else s.nice(m)
        return list(tk), s.domain()

    tk, nd = guarded(lambda: lib_call(run), ctx)
    ctx.event("kind:time")
    if spec.get("p0"):
        # a scale that was used with another domain before (ticks and nice), then given this one: same nice domain
        def reuse():
            s = TimeScale().domain([tg.parse(spec["p0"]), tg.parse(spec["p1"])])
            s.ticks() if m is None else s.ticks(m)
            s.nice() if m is None else s.nice(m)
            s.domain(list(dom))
            s.nice() if m is None else s.nice(m)
            return s.domain()

        nd2 = guarded(lambda: lib_call(reuse), ctx)
        if nd2 != nd:
            raise Violation("time-nice-depends-on-earlier-domain", "[%s, %s] nice(%r) -> %r on a fresh scale, %r on a scale that had the domain [%s, %s] before" % (d0, d1, m, nd, nd2, spec["p0"], spec["p1"]))
    lo, hi, nlo, nhi = min(dom), max(dom), min(nd), max(nd)
    if d1 < d0:
        ctx.event("time:reversed")
    if (nd[0] < nd[1]) != (d0 < d1):
        raise Violation("time-orientation", "[%s, %s] nice(%r) -> %r" % (d0, d1, m, nd))
    if nlo > lo or nhi < hi:
        raise Violation("time-inward", "[%s, %s] nice(%r) -> [%s, %s]" % (d0, d1, m, nd[0], nd[1]))
    gaps = [tg.ms(tk[i + 1]) - tg.ms(tk[i]) for i in range(len(tk) - 1)]
    if gaps:
        G, g = max(gaps), min(gaps)
        if g <= 0:
            raise Violation("time-ticks-not-increasing", "%r" % tk[:4])
        if tg.ms(lo) - tg.ms(nlo) >= 2 * G or tg.ms(nhi) - tg.ms(hi) >= 2 * G:
            raise Violation("time-too-far", "[%s, %s] nice(%r) -> [%s, %s], largest tick gap %d ms" % (d0, d1, m, nd[0], nd[1], G))
        u = tg.gran(g)
        ctx.event("time:unit:" + u)
        for e in (nlo, nhi):
            if u != "ms":
                if tg.ofloor(u, e) != e:
                    raise Violation("time-not-aligned", "[%s, %s] nice(%r) -> end %s is not on a %s boundary (smallest tick gap %d ms)" % (d0, d1, m, e, u, g))
            else:
                em = (e - tg.EPOCH) / tg.MS
                r = em % g
                if min(r, g - r) > 1:
                    raise Violation("time-subsecond-not-aligned", "[%s, %s] nice(%r) -> end %s, tick gap %d ms" % (d0, d1, m, e, g))
    else:
        ctx.event("time:fewer-than-2-ticks")
    moved = nlo != lo or nhi != hi
    if moved:
        ctx.event("moved")
    return moved


def check(spec, ctx):
    return check_linear(spec, ctx) if spec["kind"] == "linear" else check_time(spec, ctx)
