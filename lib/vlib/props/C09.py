"""C09 - the SVG and TikZ back-ends draw the same picture (differential)."""
from vlib import tl
from vlib.core import Violation
from vlib.props import C07

ID = "C09"
DESIGN_REF = "3/C09"
RULE = (
    "Timeline specs of C07 including all colour forms (3-digit hex, 6-digit hex in either case, with and without '#', lists, "
    "functions of the datum) and border on/off; the two exports are built from separate deep copies of the same spec. Parsed "
    "structures must agree: axis line and main-layer shift; box origin, width, height; link coordinates as printed strings point "
    "for point; dots within 1e-6, equal radius; ticks equal in number and text, TikZ position = truncation of the SVG position; "
    "per-datum dot/link/fill/border/text colours equal as RGB triples; border present in one iff in the other; label texts "
    "related by the C19 relation. Non-trivial: >= 2 data; distinct = distinct spec hash."
)
ASSUMPTIONS = ["margins are not compared (documented TikZ limitation)"] + C07.ASSUMPTIONS[:3]
MIN_FRACTIONS = {"nontrivial": 0.6, "colour-options": 0.2, "colour:list": 0.05, "colour:fn": 0.05, "border": 0.15, "multi-layer": 0.15, "ticks-off": 0.15}


def budget(tier):
    return dict(examples=300, shards=4) if tier == "quick" else dict(examples=1500, shards=16)


def strategy(tier):
    return tl.timeline_spec(tier)


def check(spec, ctx):
    today, svg, ts, S, tex, tt, T = C07.both(spec, ctx)
    tl.check_c09(S, T, spec)
    o = spec["opts"]
    cols = [o[k] for k in tl.COLOR_KEYS if k in o]
    if cols:
        ctx.event("colour-options")
        for form in {c[0] for c in cols}:
            ctx.event("colour:" + form)
    if o.get("showBorder"):
        ctx.event("border")
    if o.get("showTicks", True) is False:
        ctx.event("ticks-off")
    if any(len(l[0][1]) > 1 for l in S["links"]):
        ctx.event("multi-layer")
    ctx.event("dir:" + o.get("direction", "right"))
    nt = len(spec["data"]) >= 2
    if nt:
        ctx.event("nontrivial")
    return nt
