"""C02 - least-squares optimal placement, judged against an exact PAVA reference."""
from fractions import Fraction as F

from vlib import engine
from vlib.core import Violation

ID = "C02"
DESIGN_REF = "3/C02"
RULE = (
    "Same generator as C01. For every layer that fits between its bounds (decided in exact rationals) or has no upper bound, "
    "the reported positions are compared with the unique least-squares optimum of the chain problem, computed independently by "
    "pool-adjacent-violators in Fraction arithmetic and clipped to the common box; deeper layers are judged against their "
    "stubs' final positions. Tolerance 0.5 (rounding) + 0.02 (solver stopping rules) + give of the weight-1e10 walls. "
    "Non-trivial: PAVA pooled a block of >= 2 items or a bound is active in some judged layer; distinct = distinct spec hash."
)
ASSUMPTIONS = [
    "items with tied targets are ordered as the output ordered them (either order is allowed by the property)",
    "layers within 1e-9 of exactly fitting are counted as borderline and not judged",
    "walls are modelled as the library models them (soft, weight 1e10): their give is added to the tolerance",
]
MIN_FRACTIONS = {"layer:pooled": 0.3, "layer:bound-active": 0.05, "layer:deeper-layer": 0.1, "layer:judged": 0.5}


def budget(tier):
    return dict(examples=400, shards=4) if tier == "quick" else dict(examples=4000, shards=16)


def strategy(tier):
    return engine.layout_spec(tier)


def check(spec, ctx):
    f, nodes = engine.run_layout(spec, ctx)
    opts = engine.merged(spec["opts"])
    layers = engine.rebuild_layers(nodes)
    nontrivial = False
    for k in sorted(layers):
        items, G, R, A = engine.layer_facts(layers[k], opts)
        if engine.ambiguous_order(items):
            ctx.event("layer:ambiguous-tie-order (skipped)")
            continue
        if A is not None and abs(R - A) < F(1, 10 ** 9):
            ctx.event("layer:borderline-fit (not judged)")
            continue
        fits, opt, pooled, active, give = engine.optimum(items, G, opts)
        if not fits:
            ctx.event("layer:does-not-fit (C03's business)")
            continue
        ctx.event("layer:judged")
        if k > 0:
            ctx.event("layer:deeper-layer")
        if pooled:
            ctx.event("layer:pooled")
        if active:
            ctx.event("layer:bound-active")
        for e in engine.layer_classes(items, G, opts, len(layers)):
            ctx.event("layer:" + e)
        tol = 0.5 + engine.SOLVER_TOL + 2 * float(give) / engine.WALL_W + 1e-9
        for i, (nd, o) in enumerate(zip(items, opt)):
            d = abs(nd.currentPos - float(o))
            if d > tol:
                raise Violation(
                    "not-optimal",
                    "layer %d item %d (target %r, width %r, stub %r) reported at %r, least-squares optimum %s = %.6f (off by %.4f > %.4f)"
                    % (k, i, engine.target(nd), nd.width, nd.isStub(), nd.currentPos, o, float(o), d, tol),
                )
            if not pooled and not active and nd.currentPos != round(engine.target(nd)) and abs(nd.currentPos - engine.target(nd)) > 0.5 + 1e-9:
                raise Violation("moved-without-need", "layer %d item %d has room at its target %r but is at %r" % (k, i, engine.target(nd), nd.currentPos))
        if pooled or active:
            nontrivial = True
    return nontrivial
