"""C07 - every datum is drawn once, at its true time, linked to its own label (SVG and TikZ)."""
import datetime as dtm

from vlib import tl
from vlib.core import Violation

ID = "C07"
DESIGN_REF = "3/C07"
RULE = (
    "Hypothesis timeline specs: numbers on a linear scale, datetimes with time of day and milliseconds, dates, times; 1-40 data "
    "(120 thorough) with ties, unsorted, spans from ms to centuries; explicit widths; texts over ASCII, XML specials, accents, "
    "combining sequences, CJK, emoji, TeX specials; four directions; engine options; integer sizes and margins; layer gap, padding; "
    "ticks on/off; colours; explicit covering domain (about half) or derived. Both exports are parsed (xml.etree / anchored "
    "regular expressions) and judged against the caller's data: counts, axis line, the affine map of the datum's time exactly "
    "as supplied, link continuity and per-layer way-points, link end at the middle of the box's axis-facing edge, multiset of "
    "(dot position, box size, text), dots on the axis line, tick text = formatted value of the tick position. Non-trivial: >= 2 "
    "distinct times and a displaced label or a second layer; distinct = distinct spec hash."
)
ASSUMPTIONS = [
    "texts contain no control characters or line breaks (XML 1.0 cannot carry them; labels are one line)",
    "sizes and margins are integers (both back-ends print them with %i)",
    "a change of an emitter's surface syntax shows up as a parser failure = harness error, not a violation",
    "TikZ label texts are judged by the C19 relation",
]
MIN_FRACTIONS = {"nontrivial": 0.3, "kind:datetime": 0.15, "kind:linear": 0.08, "kind:date": 0.08, "kind:time": 0.08, "has-time-of-day": 0.15, "multi-layer": 0.15, "explicit-domain": 0.2, "has-text": 0.4,
                 "dir:up": 0.1, "dir:down": 0.1, "dir:left": 0.1, "dir:right": 0.1}


def budget(tier):
    return dict(examples=250, shards=4) if tier == "quick" else dict(examples=1500, shards=16)


def strategy(tier):
    return tl.timeline_spec(tier)


def classify(spec, info, ctx):
    ctx.event("kind:" + spec["kind"])
    ctx.event("dir:" + spec["opts"].get("direction", "right"))
    if spec.get("domain"):
        ctx.event("explicit-domain")
    if any("text" in d for d in spec["data"]):
        ctx.event("has-text")
    if spec["kind"] == "datetime" and any(not d["time"].endswith("T00:00:00.000") for d in spec["data"]):
        ctx.event("has-time-of-day")
    if len({d["time"] for d in spec["data"]}) < len(spec["data"]):
        ctx.event("ties")
    if info["maxlayer"] > 0:
        ctx.event("multi-layer")
    if info["deg"]:
        ctx.event("degenerate-domain")


def both(spec, ctx):
    """export and parse both back-ends; re-run once if the local date changed meanwhile (time-only data)"""
    for _ in range(2):
        today = dtm.date.today()
        svg, ts = tl.run(spec, "svg", ctx)
        tex, tt = tl.run(spec, "tex", ctx)
        if dtm.date.today() == today:
            break
    return today, svg, ts, tl.parse_svg(svg), tex, tt, tl.parse_tex(tex)


def check(spec, ctx):
    today, svg, ts, S, tex, tt, T = both(spec, ctx)
    info = tl.check_c07(spec, S, ts, "svg", today)
    try:
        tl.check_c07(spec, T, tt, "tex", today, svg_ticks=S["ticks"])
    except Violation as v:
        raise Violation("tikz:" + v.bucket, v.msg)
    classify(spec, info, ctx)
    pos = [g[0] for g in info["got"]]
    displaced = False
    o = spec["opts"]
    horiz = o.get("direction", "right") in ("up", "down")
    for g, lb in zip(info["got"], S["labels"]):
        centre = (lb["origin"][0] + lb["w"] / 2) if horiz else (lb["origin"][1] + lb["h"] / 2)
        if abs(centre - g[0]) > 1.5:
            displaced = True
    nt = len(set(pos)) >= 2 and (displaced or info["maxlayer"] > 0)
    if nt:
        ctx.event("nontrivial")
    return nt
