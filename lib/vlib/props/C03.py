"""C03 - bounds honoured whenever the items fit; otherwise the excess spills."""
from fractions import Fraction as F

from vlib import engine
from vlib.core import Violation

ID = "C03"
DESIGN_REF = "3/C03"
RULE = (
    "Generator of C01 with the bound-relative upper bounds emphasised (exact fit, +-0.5/1/2, 30%/70% of the required width, "
    "density budget). Per layer R = sum of widths + required gaps and A = maxPos - minPos in exact rationals. R <= A or one "
    "bound only: every item lies inside the bounds to 0.5 + solver tolerance. R > A: full separation (C01's chain bound) and total "
    "spill beyond the bounds <= (R - A) + 1. Non-trivial: some item's target lies outside or within half a width of a bound, "
    "or the layer does not fit; distinct = distinct spec hash."
)
ASSUMPTIONS = [
    "|R - A| < 1e-9 is borderline and not judged in either direction",
    "walls are soft (weight 1e10) as in the library; their give is added to the tolerance",
]
MIN_FRACTIONS = {"layer:fits-both-bounds": 0.15, "layer:does-not-fit": 0.10, "layer:one-bound": 0.05, "layout:exact-fit-within-2": 0.02}


def budget(tier):
    return dict(examples=400, shards=4) if tier == "quick" else dict(examples=4000, shards=16)


def strategy(tier):
    return engine.layout_spec(tier, bounds_emphasis=True)


def check(spec, ctx):
    f, nodes = engine.run_layout(spec, ctx)
    opts = engine.merged(spec["opts"])
    lo, hi = opts["minPos"], opts["maxPos"]
    layers = engine.rebuild_layers(nodes)
    nontrivial = False
    if lo is None and hi is None:
        ctx.event("layout:no-bounds")
    for k in sorted(layers):
        items, G, R, A = engine.layer_facts(layers[k], opts)
        if engine.ambiguous_order(items):
            ctx.event("layer:ambiguous-tie-order (skipped)")
            continue
        if lo is None and hi is None:
            continue
        if A is not None and abs(R - A) < F(1, 10 ** 9):
            ctx.event("layer:borderline-fit (not judged)")
            continue
        if A is not None and abs(R - A) <= 2:
            ctx.event("layout:exact-fit-within-2")
        near = any(
            (lo is not None and engine.target(nd) - nd.width / 2 < lo + nd.width / 2) or (hi is not None and engine.target(nd) + nd.width / 2 > hi - nd.width / 2)
            for nd in items
        )
        if A is None or R <= A:
            ctx.event("layer:one-bound" if A is None else "layer:fits-both-bounds")
            fits, opt, pooled, active, give = engine.optimum(items, G, opts)
            tol = 0.5 + engine.SOLVER_TOL + 2 * float(give) / engine.WALL_W + 1e-9
            for i, nd in enumerate(items):
                if lo is not None and nd.currentLeft() < lo - tol:
                    raise Violation("below-lower-bound", "layer %d (fits: R=%s <= A=%s) item %d left edge %r < minPos %r" % (k, R, A, i, nd.currentLeft(), lo))
                if hi is not None and nd.currentRight() > hi + tol:
                    raise Violation("above-upper-bound", "layer %d (fits: R=%s <= A=%s) item %d right edge %r > maxPos %r" % (k, R, A, i, nd.currentRight(), hi))
            if near:
                nontrivial = True
                ctx.event("layer:target-near-or-outside-bound")
        else:
            ctx.event("layer:does-not-fit")
            nontrivial = True
            engine.check_separation(items, G, "layer %d (does not fit)" % k)
            left = min(nd.currentLeft() for nd in items)
            right = max(nd.currentRight() for nd in items)
            spill = max(0.0, lo - left) + max(0.0, right - hi)
            excess = float(R - A)
            if spill > excess + 1 + engine.SOLVER_TOL + 1e-6:
                raise Violation("spill-too-large", "layer %d: spills %r beyond the bounds, the excess is only %r" % (k, spill, excess))
            if right - left > float(R) + 1 + engine.SOLVER_TOL + 1e-6:
                raise Violation("wider-than-needed", "layer %d: extent %r, required width %r" % (k, right - left, float(R)))
    return nontrivial
