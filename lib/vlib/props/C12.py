"""C12 - the linear scale is the affine map through its domain and range end points."""
import math
from fractions import Fraction as F

from hypothesis import strategies as st

from vlib.core import Violation, lib_call

ID = "C12"
DESIGN_REF = "3/C12"
RULE = (
    "(a) map cases: domains [a,b], a != b, either order, magnitudes 1e-6..1e9 (random floats and 'nice' decimals), ranges either "
    "order, query points inside and up to +-10 spans outside; oracle = exact rational affine map, exact end points, strict "
    "monotonicity, invert round trips, clamp. (b) histories: a pool of scales under domain/range/clamp/nice/copy steps (a step "
    "names its target modulo the pool size); after every step every scale must map the end points of the domain it reports to the "
    "end points of the range it reports and invert the range ends back to them, and every scale other than the target must be "
    "unchanged (domain, range, clamp, outputs and inverses at probes); every scale must behave (scale and invert, inside and "
    "outside its domain/range) exactly like a fresh scale given the domain, range and clamp it reports. Non-trivial: (a) query differs from both ends; (b) a copy followed later by nice on either party. "
    "distinct = distinct spec hash."
)
ASSUMPTIONS = [
    "tolerances: 1e-9 relative to max|range| scaled by the extrapolation factor (float64 gives ~1e-15); invert additionally scaled by max|r|/|r1-r0|",
    "clamped outputs may leave the range by up to 4 ulps of its larger end: r0*(1-t)+r1*t is not monotone to the last bit (domain [0.3, 0.6], range [-6, -7], x = 0.30000000000000004 gives -5.999999999999999)",
    "histories pass fresh lists to domain()/range(): sharing a caller-supplied list is outside the property",
    "history domains have span >= 1e-6 of the end points' magnitude (the regime in which C13/C14 specify nice(); a span of one ulp is collapsed by nice() through float resolution alone)",
]
MIN_FRACTIONS = {"kind:map": 0.3, "kind:history": 0.3, "history:copy-then-nice": 0.1, "map:outside-domain": 0.1, "map:reversed-domain": 0.1}


def budget(tier):
    return dict(examples=2500, shards=4) if tier == "quick" else dict(examples=30000, shards=16)


NICE_VALS = [0.3, 0.7, 26.0016, 0.13, 9.7, 1e-5, 5e-5, 0.1, 0.2, 1.1, 2.2, 2.22, 3.3, 100.7, 250.0, -5.0]


@st.composite
def endpoints(draw, min_rel=0.0):
    if draw(st.booleans()):
        mag = 10 ** draw(st.floats(-6, 9))
        a = draw(st.floats(-1, 1)) * mag
        span = 10 ** draw(st.floats(-9, 9.5))
        b = a + span
        if b == a:
            b = a + max(abs(a), 1e-6)
        if draw(st.integers(0, 9)) < 3:
            a, b = float(round(a)), float(round(b) + 1)
    else:
        a = draw(st.sampled_from(NICE_VALS)) * 10 ** draw(st.integers(-5, 5)) * draw(st.sampled_from([1, -1]))
        b = a + draw(st.sampled_from(NICE_VALS + [1, 10, 9.57, 0.003])) * 10 ** draw(st.integers(-6, 5))
        if b == a:
            b = a + 1.0
    if min_rel and abs(b - a) < min_rel * max(abs(a), abs(b)):
        # nice() is specified (C13/C14) only for spans of at least a millionth of the end points' magnitude
        b = a + 2 * min_rel * max(abs(a), abs(b))
    if draw(st.booleans()):
        a, b = b, a
    return float(a), float(b)


@st.composite
def a_range(draw):
    r0 = draw(st.one_of(st.sampled_from([0.0, 0.0, 500.0, -20.0]), st.floats(-1000, 1000).map(lambda v: round(v, 3))))
    w = draw(st.one_of(st.sampled_from([100.0, 360.0, 1.0, 760.0]), st.floats(1e-3, 2000).map(lambda v: round(v, 4))))
    w = max(w, 1e-3 * max(1.0, abs(r0)))
    r1 = r0 + w * draw(st.sampled_from([1, 1, -1]))
    return [r0, r1]


@st.composite
def map_case(draw):
    a, b = draw(endpoints())
    r = draw(a_range())
    t = draw(st.one_of(st.floats(0, 1), st.floats(-10, 11), st.sampled_from([0.0, 1.0, 0.5, -1.0, 2.0, 1e-9, 1 - 1e-9])))
    t2 = draw(st.floats(-10, 11))
    return dict(kind="map", a=a, b=b, r=r, x=a + (b - a) * t, x2=a + (b - a) * t2)


STEP = st.one_of(
    st.builds(lambda i, e: dict(op="domain", i=i, d=list(e)), st.integers(0, 7), endpoints(1.0000001e-6)),
    st.builds(lambda i, r: dict(op="range", i=i, r=r), st.integers(0, 7), a_range()),
    st.builds(lambda i, c: dict(op="clamp", i=i, c=c), st.integers(0, 7), st.booleans()),
    st.builds(lambda i, m: dict(op="nice", i=i, m=m), st.integers(0, 7), st.sampled_from([None, None, 1, 2, 5, 10, 37])),
    st.builds(lambda i, m: dict(op="nice", i=i, m=m), st.integers(0, 7), st.sampled_from([None, 10])),
    st.builds(lambda i: dict(op="copy", i=i), st.integers(0, 7)),
    st.builds(lambda i: dict(op="copy", i=i), st.integers(0, 7)),
    # re-set the domain or the range to nearly (but not exactly) the values it has
    st.builds(lambda i, w, e, k: dict(op="nudge", i=i, what=w, end=e, rel=k), st.integers(0, 7), st.sampled_from(["domain", "range"]), st.integers(0, 1),
              st.sampled_from([1e-15, 1e-12, 1e-10, -1e-10, 1e-8, 1e-6])),
)


def strategy(tier):
    hist = st.lists(STEP, min_size=1, max_size=14 if tier == "quick" else 30).map(lambda h: dict(kind="history", history=h))
    return st.one_of(map_case(), hist)


def exact_affine(a, b, r0, r1, x):
    return F(r0) + (F(x) - F(a)) / (F(b) - F(a)) * (F(r1) - F(r0))


def check_map(spec, ctx):
    from labella.scale import LinearScale

    a, b, (r0, r1), x, x2 = spec["a"], spec["b"], spec["r"], spec["x"], spec["x2"]
    s = lib_call(lambda: LinearScale().domain([a, b]).range([r0, r1]))
    ya, yb = lib_call(s, a), lib_call(s, b)
    if ya != r0 or yb != r1:
        raise Violation("endpoints", "domain [%r, %r] -> range [%r, %r] but s(a)=%r s(b)=%r" % (a, b, r0, r1, ya, yb))
    if list(s.domain()) != [a, b] or list(s.range()) != [r0, r1]:
        raise Violation("reports-other-domain", "set %r/%r, reports %r/%r" % ([a, b], [r0, r1], s.domain(), s.range()))
    rmax = max(abs(r0), abs(r1), 1e-300)
    span = abs(b - a)
    ys = {}
    for q in (x, x2):
        y = lib_call(s, q)
        e = exact_affine(a, b, r0, r1, q)
        t = abs((q - a) / (b - a))
        tol = 1e-9 * max(rmax, abs(float(e))) * max(1.0, t)
        if not math.isfinite(y) or abs(F(y) - e) > tol:
            raise Violation("not-affine", "s(%r) = %r, exact affine value %.17g (tol %.3g) for domain [%r,%r] range [%r,%r]" % (q, y, float(e), tol, a, b, r0, r1))
        ys[q] = y
        xi = lib_call(s.invert, y)
        tol_i = 1e-9 * (max(abs(a), abs(b), abs(q)) + span * rmax / abs(r1 - r0) * max(1.0, t))
        if abs(xi - q) > tol_i:
            raise Violation("invert-scale", "invert(s(%r)) = %r (tol %.3g)" % (q, xi, tol_i))
        y2 = lib_call(s, lib_call(s.invert, float(e)))
        if abs(F(y2) - e) > 1e-9 * max(rmax, abs(float(e))) * max(1.0, t) * (1 + max(abs(a), abs(b)) / span * 1e-6):
            raise Violation("scale-invert", "s(invert(%r)) = %r" % (float(e), y2))
    if abs(x2 - x) > 1e-9 * span and abs(x2 - x) / span * abs(r1 - r0) > 1e-8 * max(rmax, abs(ys[x]), abs(ys[x2])) * max(1.0, abs((x - a) / (b - a)), abs((x2 - a) / (b - a))):
        inc = ((b > a) == (r1 > r0))
        if ((ys[x2] > ys[x]) == (x2 > x)) != inc or ys[x2] == ys[x]:
            raise Violation("not-monotone", "s(%r)=%r, s(%r)=%r" % (x, ys[x], x2, ys[x2]))
    sc = lib_call(lambda: LinearScale().domain([a, b]).range([r0, r1]).clamp(True))
    lo, hi = min(r0, r1), max(r0, r1)
    for q in (x, x2):
        yc = lib_call(sc, q)
        ulps = 4 * math.ulp(max(abs(lo), abs(hi), 1e-300))
        if not (lo - ulps <= yc <= hi + ulps):
            # (r0*(1-t) + r1*t is not monotone to the last bit: for t = 2e-16 it can land one ulp outside [r0, r1])
            raise Violation("clamp-leaves-range", "clamped s(%r) = %r outside [%r, %r]" % (q, yc, lo, hi))
        t = (F(q) - F(a)) / (F(b) - F(a))
        if 0 <= t <= 1 and abs(yc - ys[q]) > 1e-12 * max(1.0, rmax):
            raise Violation("clamp-changes-inside", "inside the domain clamped %r != unclamped %r" % (yc, ys[q]))
        if t < 0 and yc != r0 or t > 1 and yc != r1:
            raise Violation("clamp-not-at-end", "outside the domain (t=%r) clamped value %r, ends %r %r" % (float(t), yc, r0, r1))
    ctx.event("kind:map")
    tq = (x - a) / (b - a)
    if tq < 0 or tq > 1:
        ctx.event("map:outside-domain")
    if b < a:
        ctx.event("map:reversed-domain")
    if r1 < r0:
        ctx.event("map:reversed-range")
    return x != a and x != b


PROBES = (-3.0, 0.5, 7.25, 1e3, -2e-4)


YPROBES = (-10.0, 0.25, 33.0)


def snap(s):
    return (list(s.domain()), list(s.range()), s.clamp(), tuple(s(p) for p in PROBES), tuple(s.invert(y) for y in YPROBES))


def check_history(spec, ctx):
    from labella.scale import LinearScale

    ctx.event("kind:history")
    pool = [lib_call(LinearScale)]
    copied = set()
    nontrivial = False
    for n, st_ in enumerate(spec["history"]):
        i = st_["i"] % len(pool)
        s = pool[i]
        before = [lib_call(snap, x) for x in pool]
        op = st_["op"]
        if op == "domain":
            lib_call(s.domain, list(st_["d"]))
        elif op == "range":
            lib_call(s.range, list(st_["r"]))
        elif op == "clamp":
            lib_call(s.clamp, st_["c"])
        elif op == "nice":
            lib_call(s.nice, st_["m"])
            if i in copied:
                nontrivial = True
                ctx.event("history:copy-then-nice")
        elif op == "nudge":
            cur = list(s.domain() if st_["what"] == "domain" else s.range())
            v = cur[st_["end"]]
            cur[st_["end"]] = v * (1 + st_["rel"]) if v else st_["rel"]
            if cur[0] != cur[1]:
                lib_call(s.domain if st_["what"] == "domain" else s.range, cur)
        elif op == "copy":
            pool.append(lib_call(s.copy))
            copied.add(i)
            copied.add(len(pool) - 1)
        for j, x in enumerate(pool[: len(before)]):
            if j != i:
                now = lib_call(snap, x)
                if now != before[j]:
                    raise Violation("interference", "step %d (%s on scale %d) changed scale %d: %r -> %r" % (n, op, i, j, before[j][:3], now[:3]))
        for j, x in enumerate(pool):
            d, r = x.domain(), x.range()
            y0, y1 = lib_call(x, d[0]), lib_call(x, d[1])
            if y0 != r[0] or y1 != r[1]:
                raise Violation("reported-domain-not-mapped", "after step %d (%s on %d) scale %d reports domain %r range %r but maps the ends to %r, %r" % (n, op, i, j, d, r, y0, y1))
            # reference model: behaviour is a function of the reported (domain, range, clamp) alone
            fresh = lib_call(lambda: LinearScale().domain(list(d)).range(list(r)).clamp(x.clamp()))
            span, rspan = d[1] - d[0], r[1] - r[0]
            for q in (d[0] - span, d[0] + 0.3 * span, d[1] + 0.5 * span):
                if lib_call(x, q) != lib_call(fresh, q):
                    raise Violation("differs-from-fresh-scale", "after step %d (%s on %d) scale %d (domain %r range %r clamp %r): s(%r) = %r, a fresh scale with the same settings gives %r" % (n, op, i, j, d, r, x.clamp(), q, x(q), fresh(q)))
            for y in (r[0] - rspan, r[0] + 0.3 * rspan, r[1] + 0.5 * rspan):
                if lib_call(x.invert, y) != lib_call(fresh.invert, y):
                    raise Violation("invert-differs-from-fresh-scale", "after step %d (%s on %d) scale %d (domain %r range %r clamp %r): invert(%r) = %r, a fresh scale with the same settings gives %r" % (n, op, i, j, d, r, x.clamp(), y, x.invert(y), fresh.invert(y)))
            x0, x1 = lib_call(x.invert, r[0]), lib_call(x.invert, r[1])
            if x0 != d[0] or x1 != d[1]:
                raise Violation("invert-not-inverse-of-reported-state", "after step %d (%s on %d) scale %d reports domain %r range %r but inverts the range ends to %r, %r" % (n, op, i, j, d, r, x0, x1))
    return nontrivial


def check(spec, ctx):
    return check_map(spec, ctx) if spec["kind"] == "map" else check_history(spec, ctx)
