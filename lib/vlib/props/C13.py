"""C13 - linear ticks are round, evenly spaced, complete, in-domain, uniquely labelled."""
import math
from fractions import Fraction as F

from hypothesis import strategies as st

from vlib.core import Violation, lib_call
from vlib.props.C12 import NICE_VALS

ID = "C13"
DESIGN_REF = "3/C13"
RULE = (
    "Domains of either order, magnitudes 1e-6..1e9, spans 1e-9..1e12 but >= 1e-6 of the end points' magnitude, including 'nice' "
    "decimal end points (0.3, 0.7, 26.0016, ...) where x/step lands a hair off an integer; m in 1..100 and the default. Oracle: "
    "ticks strictly increasing; step read from the ticks is 1, 2 or 5 x 10^k; every tick a multiple of the step and inside the "
    "domain (1e-6 step + accumulated ulps); count equals the exact rational number of multiples in the domain, +-1 at an end "
    "within 1e-9 relative of a multiple; floor(0.57 m) <= count <= 1.43 m + 1; tick texts pairwise distinct and read back within "
    "1e-3 step. Non-trivial: >= 2 ticks; distinct = distinct spec hash."
)
ASSUMPTIONS = [
    "tick values are produced by repeated float addition; the in-domain/multiple tolerance is 1e-6*step plus 256 ulps of the end points' magnitude",
]
MIN_FRACTIONS = {"ticks>=2": 0.8, "nice-decimal-endpoints": 0.2, "reversed": 0.2, "m:default": 0.05}


def budget(tier):
    return dict(examples=3000, shards=4) if tier == "quick" else dict(examples=40000, shards=16)


@st.composite
def tick_domain(draw):
    if draw(st.booleans()):
        mag = 10 ** draw(st.floats(-6, 9))
        a = draw(st.floats(-1, 1)) * mag
        span = 10 ** draw(st.floats(-9, 12))
        nice = False
        if draw(st.integers(0, 9)) < 3:
            a = float(round(a))
            span = float(max(1, round(span)))
    else:
        nice = True
        a = draw(st.sampled_from(NICE_VALS)) * 10 ** draw(st.integers(-5, 5)) * draw(st.sampled_from([1, -1]))
        span = draw(st.sampled_from(NICE_VALS[:13] + [1, 10, 9.57, 0.003, 2.5, 7, 0.02])) * 10 ** draw(st.integers(-6, 5))
        span = abs(span)
    b = a + span
    span = max(abs(b - a), 1.0000001e-6 * max(abs(a), abs(b)), 1e-9)
    b = a + span
    if abs(b - a) < 1e-6 * max(abs(a), abs(b)) or b == a:
        b = a + 2e-6 * max(abs(a), abs(b), 1e-3)
    rev = draw(st.booleans())
    m = draw(st.one_of(st.none(), st.integers(1, 100), st.sampled_from([1, 2, 3, 5, 10, 10, 20, 50, 100])))
    return dict(a=float(b if rev else a), b=float(a if rev else b), m=m, nice=nice)


def strategy(tier):
    return tick_domain()


def step_form(step):
    """(mantissa, exponent) with step ~= mantissa * 10^exponent, mantissa in {1,2,5}; or None"""
    e = math.floor(math.log10(step) + 1e-9)
    mant = step / 10.0 ** e
    for mm in (1, 2, 5, 10):
        if abs(mant - mm) <= 1e-7 * mm:
            if mm == 10:
                return 1, e + 1
            return mm, e
    return None


def check(spec, ctx):
    from labella.scale import LinearScale

    a, b, m = spec["a"], spec["b"], spec["m"]
    s = lib_call(lambda: LinearScale().domain([a, b]))
    t = lib_call(lambda: list(s.ticks(m)))
    fmt = lib_call(s.tickFormat, m)
    mm = 10 if m is None else m
    lo, hi = min(a, b), max(a, b)
    ctx.event("m:default" if m is None else "m:given")
    if spec.get("nice"):
        ctx.event("nice-decimal-endpoints")
    if b < a:
        ctx.event("reversed")
    n = len(t)
    if not (math.floor(0.57 * mm) <= n <= 1.43 * mm + 1):
        raise Violation("count-range", "domain [%r, %r], m=%r: %d ticks" % (a, b, m, n))
    if any(t[i + 1] <= t[i] for i in range(n - 1)):
        raise Violation("not-increasing", "domain [%r, %r], m=%r: %r" % (a, b, m, t[:5]))
    ulps = 256 * math.ulp(max(abs(lo), abs(hi)))
    if n < 2:
        for x in t:
            if x < lo - ulps or x > hi + ulps:
                raise Violation("outside-domain", "tick %r outside [%r, %r]" % (x, lo, hi))
        ctx.event("ticks<2")
        return False
    ctx.event("ticks>=2")
    step = (t[-1] - t[0]) / (n - 1)
    sf = step_form(step)
    if sf is None:
        raise Violation("step-form", "domain [%r, %r], m=%r: spacing %r is not 1, 2 or 5 times a power of ten" % (a, b, m, step))
    stq = F(sf[0]) * (F(10) ** sf[1])
    stf = float(stq)
    tol = 1e-6 * stf + ulps
    for i in range(n - 1):
        if abs((t[i + 1] - t[i]) - stf) > tol:
            raise Violation("uneven", "ticks %r, %r are not one step (%r) apart" % (t[i], t[i + 1], stf))
    for x in t:
        if x < lo - tol or x > hi + tol:
            raise Violation("outside-domain", "tick %r outside [%r, %r] (step %r)" % (x, lo, hi, stf))
        q = F(x) / stq
        if abs(q - round(q)) * stq > F(tol):
            raise Violation("not-multiple", "tick %r is not a multiple of the step %r" % (x, stf))
    # completeness in exact rationals
    ql, qh = F(lo) / stq, F(hi) / stq
    el = F(1, 10 ** 9) * max(1, abs(ql))
    eh = F(1, 10 ** 9) * max(1, abs(qh))
    generous = math.floor(qh + eh) - math.ceil(ql - el) + 1
    strict = math.floor(qh - eh) - math.ceil(ql + el) + 1
    if not (strict <= n <= generous):
        raise Violation("incomplete", "domain [%r, %r], m=%r, step %r: %d ticks, the domain holds %d..%d multiples" % (a, b, m, stf, n, strict, generous))
    txt = [lib_call(fmt, x) for x in t]
    if len(set(txt)) != n:
        raise Violation("duplicate-tick-text", "domain [%r, %r], m=%r: texts %r" % (a, b, m, txt[:6]))
    for s_, x in zip(txt, t):
        try:
            v = float(s_)
        except ValueError:
            raise Violation("tick-text-unreadable", "%r" % s_)
        if abs(v - x) > 1e-3 * stf:
            raise Violation("tick-text-readback", "tick %r formatted as %r (step %r)" % (x, s_, stf))
    # a formatter fetched earlier keeps formatting the same way whatever is asked of the scale afterwards
    other = lib_call(s.tickFormat, 3 if (m or 10) > 20 else 97)
    lib_call(other, t[0])
    if [lib_call(fmt, x) for x in t] != txt:
        raise Violation("formatter-changes-after-later-tickFormat-call", "domain [%r, %r]: the formatter for m=%r formats differently after tickFormat() was called with another count" % (a, b, m))
    # the same scale object, asked again after nice(): its ticks must be those of a fresh scale with the domain it now reports
    t_again = lib_call(lambda: list(s.ticks(m)))
    if t_again != t:
        raise Violation("ticks-change-when-asked-twice", "domain [%r, %r], m=%r: %r then %r" % (a, b, m, t[:4], t_again[:4]))
    lib_call(s.nice, m)
    nd = list(s.domain())
    t_nice = lib_call(lambda: list(s.ticks(m)))
    t_fresh = lib_call(lambda: list(LinearScale().domain(list(nd)).ticks(m)))
    if t_nice != t_fresh:
        raise Violation("stale-ticks-after-nice", "domain [%r, %r], m=%r: after nice() the scale reports %r but its ticks are %r...%r; a fresh scale with that domain gives %r...%r" % (a, b, m, nd, t_nice[:2], t_nice[-2:], t_fresh[:2], t_fresh[-2:]))
    f_nice, f_fresh = lib_call(s.tickFormat, m), lib_call(LinearScale().domain(list(nd)).tickFormat, m)
    if [f_nice(x) for x in t_fresh[:5]] != [f_fresh(x) for x in t_fresh[:5]]:
        raise Violation("stale-tick-format-after-nice", "domain [%r, %r], m=%r" % (a, b, m))
    return True
