"""C20 - per-label TeX names are unique, colour conversions agree (DESIGN 3/C20)."""
import itertools
import multiprocessing as mp
import os
import re
import string

from hypothesis import strategies as st

from vlib.core import Violation, lib_call

ID = "C20"
DESIGN_REF = "3/C20"
RULE = (
    "Exhaustive enumeration: every index 0..10^6 against an independent itertools.product enumeration of "
    "A-Z strings by increasing length (non-trivial: i >= 26, a carry has occurred); every 3-digit code over "
    "[0-9a-fA-F] with and without '#'; six-digit lower-case codes (all 16^6 in thorough, stride 257 in quick). "
    "Hypothesis adds mixed-case six-digit codes and indices up to 10^12 judged by the closed-form rank of the name. "
    "Enumerated cases are distinct by construction; generated cases are counted by hash and only when they lie "
    "outside the enumerated domain."
)
ASSUMPTIONS = [
    "colour oracle uses its own digit table, not int(_, 16)",
    "codes are 3 or 6 hex digits with optional leading '#', as documented",
]
N_INDEX = 10 ** 6
HEXV = {c: i for i, c in enumerate("0123456789abcdef")}
HEXV.update({c.upper(): v for c, v in list(HEXV.items())})
UP = "0123456789ABCDEF"


def budget(tier):
    return dict(examples=3000 if tier == "quick" else 20000, shards=1 if tier == "quick" else 8)


def strategy(tier):
    hexd = st.sampled_from("0123456789abcdefABCDEF")
    col = st.builds(
        lambda pre, ds: dict(kind="color", code=pre + "".join(ds)),
        st.sampled_from(["#", ""]),
        st.one_of(st.lists(hexd, min_size=6, max_size=6), st.lists(hexd, min_size=3, max_size=3)),
    )
    idx = st.builds(
        lambda i: dict(kind="index", i=i),
        st.one_of(st.integers(10 ** 6 + 1, 10 ** 12), st.integers(0, 20000), st.sampled_from([25, 26, 27, 701, 702, 703, 18277, 18278, 18279, 475253, 475254, 475255])),
    )
    return st.one_of(col, idx)


def expected_rgb(code):
    c = code[1:] if code.startswith("#") else code
    if len(c) == 3:
        c = c[0] * 2 + c[1] * 2 + c[2] * 2
    return tuple(HEXV[c[i]] * 16 + HEXV[c[i + 1]] for i in (0, 2, 4))


def check_color(code):
    from labella import utils

    exp = expected_rgb(code)
    rgb = lib_call(utils.hex2rgb, code)
    if tuple(rgb) != exp:
        raise Violation("hex2rgb", "%r -> %r, expected %r" % (code, rgb, exp))
    s = lib_call(utils.hex2rgbstr, code)
    m = re.fullmatch(r"rgb\(\s*(\d+)\s*,\s*(\d+)\s*,\s*(\d+)\s*\)", s)
    if not m or tuple(int(x) for x in m.groups()) != exp:
        raise Violation("hex2rgbstr", "%r -> %r, expected rgb%r" % (code, s, exp))
    h = lib_call(utils.hex2html, code)
    if not (isinstance(h, str) and len(h) == 6 and all(ch in UP for ch in h)):
        raise Violation("hex2html-form", "%r -> %r is not six upper-case hex digits" % (code, h))
    if tuple(HEXV[h[i]] * 16 + HEXV[h[i + 1]] for i in (0, 2, 4)) != exp:
        raise Violation("hex2html-value", "%r -> %r, expected colour %r" % (code, h, exp))


def rank(name):
    """index of `name` among non-empty A-Z strings in (length, alphabetical) order"""
    n = len(name)
    r = sum(26 ** k for k in range(1, n))
    v = 0
    for ch in name:
        v = v * 26 + (ord(ch) - 65)
    return r + v


def check_index(i):
    from labella import utils

    name = lib_call(utils.int2name, i)
    if not (isinstance(name, str) and name and all(ch in string.ascii_uppercase for ch in name)):
        raise Violation("int2name-form", "int2name(%d) = %r is not a non-empty A-Z string" % (i, name))
    if rank(name) != i:
        raise Violation("int2name-rank", "int2name(%d) = %r, which is string number %d" % (i, name, rank(name)))


def check(spec, ctx):
    if spec["kind"] == "color":
        code = spec["code"]
        check_color(code)
        ctx.event("gen:color-%d%s" % (len(code.lstrip("#")), "#" if code.startswith("#") else ""))
        body = code.lstrip("#")
        mixed = body != body.lower()
        if mixed:
            ctx.event("gen:color-has-uppercase")
        # 3-digit codes and lower-case 6-digit codes belong to the enumerated domain
        return len(body) == 6 and (mixed or (ctx.tier != "thorough" and code.startswith("#")))
    i = spec["i"]
    check_index(i)
    ctx.event("gen:index>1e6" if i > N_INDEX else "gen:index<=1e6")
    return i > N_INDEX


# ---- enumerated parts -----------------------------------------------------

def _names_chunk(args):
    lo, hi = args
    from labella import utils

    # independent enumeration, skipping to lo
    def gen():
        for n in itertools.count(1):
            for t in itertools.product(string.ascii_uppercase, repeat=n):
                yield "".join(t)

    bad = []
    it = itertools.islice(gen(), lo, hi)
    prev = None
    for i, exp in zip(range(lo, hi), it):
        try:
            got = utils.int2name(i)
        except Exception as e:
            got = "EXC %r" % (e,)
        if got != exp:
            bad.append((i, got, exp))
            if len(bad) > 3:
                break
        if prev is not None and not ((len(prev), prev) < (len(got), got)):
            bad.append((i, got, "not after " + prev))
        prev = got
    return hi - lo, bad


def _colors_chunk(args):
    kind, lo, hi, stride = args
    bad = []
    n = 0
    if kind == "six":
        for v in range(lo, hi, stride):
            for code in ("%06x" % v, "#%06x" % v):
                n += 1
                try:
                    check_color(code)
                except Violation as e:
                    bad.append((code, e.bucket, e.msg))
            if len(bad) > 3:
                break
    return n, bad


def extra(ctx, tier, seed):
    jobs = os.cpu_count() or 1
    # names 0..10^6
    step = 62501
    chunks = [(lo, min(N_INDEX + 1, lo + step)) for lo in range(0, N_INDEX + 1, step)]
    from vlib.core import pool_map

    res = pool_map(_names_chunk, chunks)
    n_names = sum(r[0] for r in res)
    for _, bad in res:
        for i, got, exp in bad[:1]:
            ctx.record("int2name-enum", dict(kind="index", i=i), "int2name(%d) = %r, independent enumeration gives %r" % (i, got, exp))
            ctx.buckets["int2name-enum"]["noshrink"] = True
    # 3-digit codes
    n3 = 0
    digs = "0123456789abcdefABCDEF"
    for pre in ("", "#"):
        for t in itertools.product(digs, repeat=3):
            code = pre + "".join(t)
            n3 += 1
            # the code itself, its doubled six-digit form (which must denote the same colour) and the six-digit code
            # with the same numeric value (which must not), all in this one process and in this order
            body = "".join(t)
            for c2 in (code, pre + body[0] * 2 + body[1] * 2 + body[2] * 2, pre + "000" + body, code):
                try:
                    check_color(c2)
                except Violation as e:
                    ctx.record(e.bucket + "-3digit", dict(kind="color", code=c2), "%s (evaluated right after %r)" % (e.msg, code))
                    ctx.buckets[e.bucket + "-3digit"]["noshrink"] = True
    # the package's own palettes, in every spelling
    from labella import utils as _u

    for c in list(getattr(_u, "COLOR_10", [])) + list(getattr(_u, "COLOR_20", [])):
        body = c.lstrip("#")
        for c2 in ("#" + body.lower(), body.lower(), "#" + body.upper(), body.upper()):
            n3 += 1
            try:
                check_color(c2)
            except Violation as e:
                ctx.record(e.bucket + "-palette", dict(kind="color", code=c2), e.msg)
                ctx.buckets[e.bucket + "-palette"]["noshrink"] = True
    # 6-digit lower-case codes
    stride = 1 if tier == "thorough" else 257
    total = 16 ** 6
    per = total // 64
    cchunks = [("six", lo + (-lo) % stride if stride > 1 else lo, min(total, lo + per), stride) for lo in range(0, total, per)]
    res = pool_map(_colors_chunk, cchunks)
    n6 = sum(r[0] for r in res)
    for _, bad in res:
        for code, bucket, msg in bad[:1]:
            ctx.record(bucket + "-6digit", dict(kind="color", code=code), msg)
            ctx.buckets[bucket + "-6digit"]["noshrink"] = True
    ctx.evaluations += n_names + n3 + n6
    ctx.hist["enum:index"] = n_names
    ctx.hist["enum:index>=26 (carry)"] = n_names - 26
    ctx.hist["enum:color-3digit"] = n3
    ctx.hist["enum:color-6digit-lower"] = n6
    ctx.enumerated_nontrivial = (n_names - 26) + n3 + n6
    ctx.extra["exhaustive"] = tier == "thorough"
    ctx.extra["exhaustive_parts"] = dict(
        names_0_to_1e6=True, three_digit_codes=True, six_digit_lowercase=(stride == 1), six_digit_stride=stride
    )
    ctx.samples[:0] = [dict(kind="index", i=703, name_expected="AAB"), dict(kind="color", code="#aBc"), dict(kind="color", code="00ff7f")]
