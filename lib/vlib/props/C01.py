"""C01 - items sharing a layer never overlap and keep the order of their targets."""
from vlib import engine
from vlib.core import Violation

ID = "C01"
DESIGN_REF = "3/C01"
RULE = (
    "Hypothesis-generated label multisets (1-6 clusters, ties, halves, floats, up to 70 labels quick / 200 thorough) x engine "
    "configuration (bounds absent/feasible/infeasible, label spacing, configured line spacing, density, stub width, algorithm; reaching the engine "
    "through the constructor, set_options(), both, or as a reconfiguration followed by a second compute()). Every layer of every layout is "
    "judged: items ordered by (target, position) must keep target order and every pair i<j must be at least the sum of the "
    "adjacent required gaps between them apart, less 1 for rounding. A layout is non-trivial when some layer holds two items "
    "whose targets are closer than their required gap (the solver had to act); distinct = distinct spec hash."
)
ASSUMPTIONS = [
    "labels have positive width (>= 0.001) and |position| <= 1e4 (the interval tree of the layering step rejects empty intervals)",
    "layers are rebuilt from layerIndex and parent chains, not from getLayers()",
    "for non-adjacent pairs the bound is the chain sum of adjacent gaps (what neighbours guarantee), which implies the literal pairwise bound except for two stubs separated only by labels with width + 2*spacing < 2",
]
MIN_FRACTIONS = {"layout:multi-layer": 0.10, "layout:infeasible-bounds": 0.03, "layer:stub-stub-pair": 0.05, "layer:tied-targets": 0.10}


def budget(tier):
    return dict(examples=400, shards=4) if tier == "quick" else dict(examples=4000, shards=16)


def strategy(tier):
    return engine.layout_spec(tier)


def check(spec, ctx):
    f, nodes = engine.run_layout(spec, ctx)
    opts = engine.merged(spec["opts"])
    layers = engine.rebuild_layers(nodes)
    nontrivial = False
    ctx.event("layout:multi-layer" if len(layers) > 1 else "layout:single-layer")
    infeasible = False
    for k in sorted(layers):
        items, G, R, A = engine.layer_facts(layers[k], opts)
        if engine.ambiguous_order(items):
            ctx.event("layer:ambiguous-tie-order (skipped)")
            continue
        for e in engine.layer_classes(items, G, opts, len(layers)):
            ctx.event("layer:" + e)
        if A is not None and R > A:
            infeasible = True
            ctx.event("layer:does-not-fit")
        engine.check_separation(items, G, "layer %d" % k)
        if engine.conflicts(items, G):
            nontrivial = True
            ctx.event("layer:conflict")
    if infeasible:
        ctx.event("layout:infeasible-bounds")
    return nontrivial
