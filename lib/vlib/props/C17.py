"""C17 - calendar intervals round instants correctly (floor/ceil/round/offset/range)."""
import calendar
import hashlib
import multiprocessing as mp
import os
from datetime import datetime, timedelta

from hypothesis import strategies as st

from vlib import timegen as tg
from vlib.core import Violation, guarded, lib_call

ID = "C17"
DESIGN_REF = "3/C17"
ROTATE_TZ = True  # shards run under different local time zones (the property must hold in all of them)
RULE = (
    "Enumerated: (thorough) every day 1900-01-01..2200-12-31 at 00:00, at 23:59:59.999 and at one seed-derived instant, for each "
    "of the seven units, floor/ceil/round/offset; every hour of 1900, 1970, 2000, 2024, 2100, 2200; range over every month for "
    "day/week units with steps 1..12; (quick) the 3612 month ends, the 73 leap days and year ends in the same way. Hypothesis adds "
    "ms-resolution instants, k in 0..400 and range steps 1..12 for every unit. Oracle: an independent reference built on "
    "datetime/timedelta/calendar field arithmetic (week = most recent Sunday; round = nearer, later on a tie; range = boundaries "
    "in [t0, t1) whose unit number is divisible by the step; for weeks with step > 1 only what every numbering shares). "
    "Non-trivial: the instant is not itself a boundary of the unit; enumerated cases are distinct by construction."
)
ASSUMPTIONS = ["week numbering for range steps > 1 is not defined by the property: only Sunday-boundary, order and in-year spacing are checked"]
MIN_FRACTIONS = {"gen:" + u: 0.08 for u in tg.UNITS}
MIN_FRACTIONS["gen:non-boundary"] = 0.5
SPAN_S = {"second": 200, "minute": 200 * 60, "hour": 100 * 3600, "day": 80 * 86400, "week": 60 * 7 * 86400, "month": 40 * 31 * 86400, "year": 30 * 366 * 86400}


def budget(tier):
    return dict(examples=1500, shards=4) if tier == "quick" else dict(examples=20000, shards=16)


@st.composite
def case(draw):
    u = draw(st.sampled_from(tg.UNITS))
    t = draw(tg.instant())
    k = draw(st.one_of(st.sampled_from([0, 1, 2, 3, 7, 12, 28, 29, 30, 31, 52, 365, 366, 400]), st.integers(0, 400)))
    frac = draw(st.floats(0, 1))
    dt = draw(st.integers(1, 12))
    return dict(unit=u, t=t, k=k, frac=frac, dt=dt)


def strategy(tier):
    return case()


def check_point(u, t, k=None):
    """floor / ceil / round / offset of one instant against the reference; raises Violation"""
    from labella.d3_time import d3_time

    iv = d3_time[u]
    f = tg.ofloor(u, t)
    c = f if f == t else tg.onext(u, f)
    g = lib_call(iv.floor, t)
    if g != f:
        raise Violation(u + "-floor", "floor(%s) = %s, expected %s" % (t, g, f))
    g = lib_call(iv, t)
    if g != f:
        raise Violation(u + "-call", "interval(%s) = %s, expected %s" % (t, g, f))
    g = lib_call(iv.ceil, t)
    if g != c:
        raise Violation(u + "-ceil", "ceil(%s) = %s, expected %s" % (t, g, c))
    g = lib_call(iv.round, t)
    e = tg.oround(u, t)
    if g != e:
        raise Violation(u + "-round", "round(%s) = %s, expected %s" % (t, g, e))
    if k is not None:
        if u == "year":
            k = min(k, 9999 - f.year - 1)
        g = lib_call(iv.offset, f, k)
        e = tg.onext(u, f, k)
        if g != e:
            raise Violation(u + "-offset", "offset(%s, %d) = %s, expected %s" % (f, k, g, e))
    return f != t


def check_range(u, t, t1, dt):
    from labella.d3_time import d3_time

    iv = d3_time[u]
    got = guarded(lambda: lib_call(iv.range, t, t1, dt))
    c = tg.oceil(u, t)
    if u == "week" and dt > 1:
        for g in got:
            if g.isoweekday() != 7 or g != g.replace(hour=0, minute=0, second=0, microsecond=0) or not (t <= g < t1):
                raise Violation("week-range-weak", "range(%s, %s, %d) contains %s" % (t, t1, dt, g))
        for a, b in zip(got, got[1:]):
            if b <= a or (a.year == b.year and (b - a) != timedelta(weeks=dt)):
                raise Violation("week-range-weak", "range(%s, %s, %d): %s then %s" % (t, t1, dt, a, b))
        return
    exp = []
    b = c
    while b < t1:
        if dt == 1 or tg.unit_number(u, b) % dt == 0:
            exp.append(b)
        b = tg.onext(u, b)
    if got != exp:
        i = next((i for i, (x, y) in enumerate(zip(got, exp)) if x != y), min(len(got), len(exp)))
        raise Violation(u + "-range", "range(%s, %s, %d): %d items, expected %d; first difference at %d: %r vs %r" % (t, t1, dt, len(got), len(exp), i, got[i:i + 1], exp[i:i + 1]))


def check(spec, ctx):
    u = spec["unit"]
    t = tg.parse(spec["t"])
    nb = check_point(u, t, spec["k"])
    ctx.event("gen:" + u)
    if nb:
        ctx.event("gen:non-boundary")
    if spec["k"] >= 28:
        ctx.event("gen:k>=28")
    t1 = t + timedelta(seconds=spec["frac"] * SPAN_S[u])
    t1 = t1.replace(microsecond=(t1.microsecond // 1000) * 1000)
    if t1.year <= 9000:
        check_range(u, t, t1, spec["dt"])
    return nb


# ---- enumerated parts -------------------------------------------------------

def _seeded_offset_ms(seed, day_index):
    h = hashlib.blake2b(b"%d:%d" % (seed, day_index), digest_size=4).digest()
    return int.from_bytes(h, "big") % 86400000


def _days_chunk(args):
    seed, start_ord, end_ord, full = args
    n = nt = 0
    bad = {}
    for o in range(start_ord, end_ord):
        d = datetime.fromordinal(o)
        last = calendar.monthrange(d.year, d.month)[1]
        if not full and not (d.day >= last - 1 or d.day == 1 or (d.month == 2 and d.day >= 28) or (d.month == 12 and d.day >= 30) or (d.month == 1 and d.day <= 2)):
            continue
        insts = (d, d + timedelta(hours=23, minutes=59, seconds=59, milliseconds=999), d + timedelta(milliseconds=_seeded_offset_ms(seed, o)))
        for t in insts:
            for u in tg.UNITS:
                n += 1
                try:
                    if check_point(u, t, (o + len(u)) % 45):
                        nt += 1
                except Violation as v:
                    bad.setdefault(v.bucket, (tg.iso(t), u, (o + len(u)) % 45, v.msg))
        if d.day == 1:
            t1 = d + timedelta(days=40)
            for u in ("day", "week"):
                for dt in range(1, 13):
                    n += 1
                    nt += 1
                    try:
                        check_range(u, d - timedelta(hours=5), t1, dt)
                    except Violation as v:
                        bad.setdefault(v.bucket, (tg.iso(d - timedelta(hours=5)), u, dt, v.msg))
            if d.month == 1:
                for dt in range(1, 13):
                    n += 1
                    nt += 1
                    try:
                        check_range("month", d - timedelta(days=3), d + timedelta(days=800), dt)
                    except Violation as v:
                        bad.setdefault(v.bucket, (tg.iso(d), "month", dt, v.msg))
    return n, nt, bad


def _hours_chunk(args):
    year, m0 = args
    n = nt = 0
    bad = {}
    t = datetime(year, m0, 1)
    end = datetime(year + (m0 == 12), m0 % 12 + 1, 1)
    while t < end:
        for off in (timedelta(0), timedelta(minutes=29, seconds=59, milliseconds=999), timedelta(minutes=30)):
            for u in tg.UNITS:
                n += 1
                try:
                    if check_point(u, t + off, None):
                        nt += 1
                except Violation as v:
                    bad.setdefault(v.bucket, (tg.iso(t + off), u, 0, v.msg))
        t += timedelta(hours=1)
    return n, nt, bad



def _fuzz(ctx, tier, seed):
    """thorough-tier supplement: coverage-guided search over the same property function (DESIGN 1)"""
    if tier != "thorough":
        return
    import sys
    from vlib import fuzz

    fuzz.supplement(sys.modules[__name__], ctx, seed, runs=100000, procs=8, seed_inputs=[b'\x00\x01\x02\x03\x00\x01\x02\x03\x00\x01\x02\x03\x00\x01\x02\x03\x00\x01\x02\x03\x00\x01\x02\x03', b'\x00\x01\x02\x03\x04\x05\x06\x07\x08\t\n\x0b\x0c\r\x0e\x0f\x10\x11\x12\x13\x14\x15\x16\x17\x18\x19\x1a\x1b\x1c\x1d\x1e\x1f !"#$%&\''])


def extra(ctx, tier, seed):
    _fuzz(ctx, tier, seed)
    full = tier == "thorough"
    o0, o1 = datetime(1900, 1, 1).toordinal(), datetime(2200, 12, 31).toordinal() + 1
    step = (o1 - o0) // 64 + 1
    jobs = [(seed, a, min(o1, a + step), full) for a in range(o0, o1, step)]
    from vlib.core import pool_map

    res = pool_map(_days_chunk, jobs)
    if full:
        res += pool_map(_hours_chunk, [(y, m) for y in (1900, 1970, 2000, 2024, 2100, 2200) for m in range(1, 13)])
    n = sum(r[0] for r in res)
    nt = sum(r[1] for r in res)
    for _, _, bad in res:
        for bucket, (t, u, k, msg) in bad.items():
            ctx.record("enum:" + bucket, dict(unit=u, t=t, k=k if isinstance(k, int) else 0, frac=0.5, dt=1), msg)
            ctx.buckets["enum:" + bucket]["noshrink"] = True
    ctx.evaluations += n
    ctx.enumerated_nontrivial += nt
    ctx.hist["enum:cases (unit x instant, ranges)"] = n
    ctx.hist["enum:non-boundary-or-range"] = nt
    ctx.extra["exhaustive"] = full
    ctx.extra["exhaustive_parts"] = dict(every_day_1900_2200=full, month_ends_leap_days_year_ends=True, every_hour_of_selected_years=full)
