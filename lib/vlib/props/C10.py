"""C10 - a timeline's export depends only on its own data and options (history property)."""
import datetime as dtm
import json
import subprocess
import sys

from hypothesis import strategies as st
from hypothesis.stateful import RuleBasedStateMachine, precondition, rule

from vlib import core, tl
from vlib.core import HarnessError, Violation, guarded, lib_call

ID = "C10"
DESIGN_REF = "3/C10"
RULE = (
    "Rule-based state machine over up to 4 timeline slots, each history executed in its own freshly started interpreter (so a "
    "history's outcome depends on that history alone and a shrunk history replays): construct(slot, spec, back-end) (own deep copy of the data, options "
    "without a 'scale' key or with its own fresh scale object, or no options at all: options=None or {}), export(slot), export_again(slot). Every export must be "
    "byte-identical to the export of the same spec alone in a freshly started interpreter (one subprocess per reference, cached "
    "per spec) and to the timeline's own previous export. Non-trivial: the history exports a timeline after another timeline with "
    "a different data domain was constructed; distinct = distinct history hash."
)
ASSUMPTIONS = [
    "the reference interpreter is the same Python on the same machine and locale",
    "time-only data are anchored by the library to date.today(): a mismatch while the local date changes is counted as a midnight race, not a violation",
]
MIN_FRACTIONS = {"export-after-other-construction": 0.4, "default-scale": 0.3, "repeat-export": 0.3}
_cache = {}


def budget(tier):
    return dict(examples=40, shards=4, steps=8) if tier == "quick" else dict(examples=70, shards=16, steps=14)


def reference(spec, backend):
    key = (core.canon(spec), backend)
    if key not in _cache:
        p = subprocess.run([sys.executable, "-B", "-m", "vlib.tlref"], input=json.dumps(dict(spec=spec, backend=backend)), capture_output=True, text=True, timeout=300)
        if p.returncode != 0:
            _cache[key] = ("error", p.stderr[-600:])
        else:
            _cache[key] = ("ok", json.loads(p.stdout)["doc"])
    return _cache[key]


def domain_key(spec):
    tv = [d["time"] for d in spec["data"]]
    return (spec["kind"], min(map(str, tv)), max(map(str, tv)), spec["opts"].get("direction"), spec.get("domain") and tuple(spec["domain"]))


class Interp:
    """runs one history in its own fresh interpreter (vlib.tlhist) and judges every export"""

    def __init__(self, ctx):
        self.ctx = ctx
        self.slots = {}
        self.constructed = []
        self.nontrivial = False
        self.proc = None

    def worker(self):
        if self.proc is None:
            self.proc = subprocess.Popen([sys.executable, "-B", "-m", "vlib.tlhist"], stdin=subprocess.PIPE, stdout=subprocess.PIPE, text=True, bufsize=1)
            self.ask(None)
        return self.proc

    def ask(self, step):
        import select

        p = self.proc if step is None else self.worker()
        if step is not None:
            p.stdin.write(json.dumps(step) + "\n")
            p.stdin.flush()
        r, _, _ = select.select([p.stdout], [], [], 900)
        if not r:
            raise HarnessError("history worker did not answer within 900 s")
        line = p.stdout.readline()
        if not line:
            raise HarnessError("history worker exited")
        res = json.loads(line)
        if "error" in res:
            raise HarnessError("history worker: " + res["error"])
        if "violation" in res:
            raise Violation(res["violation"][0], res["violation"][1])
        return res

    def close(self):
        if self.proc is not None:
            try:
                self.proc.stdin.close()
                self.proc.wait(timeout=5)
            except Exception:
                self.proc.kill()
            self.proc = None

    def step(self, s):
        op = s["op"]
        self.ctx.event("op:" + op)
        if op == "construct":
            spec, backend = s["spec"], s["backend"]
            self.ask(s)
            self.slots[s["slot"]] = dict(spec=spec, backend=backend, last=None, born=dtm.date.today(), order=len(self.constructed))
            self.constructed.append(domain_key(spec))
            if spec.get("scale") == "default" and spec["kind"] != "linear":
                self.ctx.event("default-scale")
        elif op == "export":
            sl = self.slots.get(s["slot"])
            if sl is None:
                return
            doc = self.ask(s)["doc"]
            mine = domain_key(sl["spec"])
            others_after = [k for k in self.constructed[sl["order"] + 1:] if k != mine]
            others_before = [k for k in self.constructed[:sl["order"]] if k != mine]
            if others_after:
                self.ctx.event("export-after-other-construction")
                self.nontrivial = True
            elif others_before:
                self.ctx.event("export-after-earlier-other")
                self.nontrivial = True
            if sl["last"] is not None:
                self.ctx.event("repeat-export")
                if doc != sl["last"]:
                    self.race_or_raise(sl, "repeat-export-differs", "second export of slot %d differs from its first: %s" % (s["slot"], first_diff(sl["last"], doc)))
            sl["last"] = doc
            kind, ref = reference(sl["spec"], sl["backend"])
            if kind == "error":
                raise Violation("reference-export-fails", "the same spec alone in a fresh process raises: %s" % ref[-300:])
            if doc != ref:
                self.race_or_raise(sl, "differs-from-fresh-process", "slot %d (%s, constructed #%d of %d) differs from the same spec exported alone: %s" % (s["slot"], sl["backend"], sl["order"] + 1, len(self.constructed), first_diff(ref, doc)))
        else:
            raise HarnessError("unknown op %r" % op)

    def race_or_raise(self, sl, bucket, msg):
        if sl["spec"]["kind"] == "time" and dtm.date.today() != sl["born"]:
            self.ctx.event("midnight-race (not judged)")
            return
        raise Violation(bucket, msg)


def first_diff(a, b):
    i = next((i for i, (x, y) in enumerate(zip(a, b)) if x != y), min(len(a), len(b)))
    return "at char %d: alone ...%r..., here ...%r..." % (i, a[max(0, i - 30):i + 40], b[max(0, i - 30):i + 40])


def check(spec, ctx):
    it = Interp(ctx)
    try:
        for s in spec["history"]:
            it.step(s)
    finally:
        it.close()
    return it.nontrivial


def machine(tier, ctx):
    prop = sys.modules[__name__]
    small = tl.timeline_spec(tier, max_items=14, extra_engine_opts=True, allow_modes=True)

    class TimelinesMachine(RuleBasedStateMachine):
        def __init__(self):
            super().__init__()
            self.it = Interp(ctx)
            self.history = []
            self.dead = False

        def do(self, step):
            if self.dead:
                return
            self.history.append(step)
            try:
                self.it.step(step)
            except Violation as v:
                self.dead = True
                core.machine_violation(ctx, prop, self.history, v)

        @rule(slot=st.integers(0, 3), spec=small, backend=st.sampled_from(["svg", "tex"]))
        def construct(self, slot, spec, backend):
            self.do(dict(op="construct", slot=slot, spec=spec, backend=backend))

        @precondition(lambda self: len(self.it.slots) > 0)
        @rule(data=st.data())
        def export(self, data):
            slot = data.draw(st.sampled_from(sorted(self.it.slots)))
            self.do(dict(op="export", slot=slot))

        @precondition(lambda self: len(self.it.slots) > 1)
        @rule(rev=st.booleans())
        def export_all(self, rev):
            for slot in sorted(self.it.slots, reverse=rev):
                self.do(dict(op="export", slot=slot))

        @rule(slot=st.integers(0, 3), spec=small, backend=st.sampled_from(["svg", "tex"]))
        def construct_and_export(self, slot, spec, backend):
            self.do(dict(op="construct", slot=slot, spec=spec, backend=backend))
            self.do(dict(op="export", slot=slot))

        @precondition(lambda self: len(self.it.slots) > 0)
        @rule(data=st.data())
        def export_twice(self, data):
            slot = data.draw(st.sampled_from(sorted(self.it.slots)))
            self.do(dict(op="export", slot=slot))
            self.do(dict(op="export", slot=slot))

        def teardown(self):
            self.it.close()
            brief = [dict(op=s["op"], slot=s["slot"], **({"backend": s["backend"], "kind": s["spec"]["kind"], "n": len(s["spec"]["data"]), "scale": s["spec"].get("scale")} if s["op"] == "construct" else {})) for s in self.history]
            ctx.case({"history": self.history}, self.it.nontrivial or self.dead, sample={"history": brief})

    return TimelinesMachine
