"""C11 - export succeeds on every documented input."""
import datetime as dtm
from datetime import timedelta

from hypothesis import strategies as st

from vlib import tl, timegen as tg
from vlib.core import Violation

ID = "C11"
DESIGN_REF = "3/C11"
RULE = (
    "The C07 timeline generator with shape classes forced to occur: single datum; all data at one time; unsorted; spans of 1 ms, "
    "a few ms, seconds .. centuries; instants on the 29th-31st, leap days, year ends, years 1900-2200; options omitted (None), "
    "empty, partial; every direction, algorithm and bound combination, one timeline in five with odd bounds (zero-width, inverted, "
    "ending at 0, narrower than a label, one-sided); ticks on/off; thorough adds timelines of up to 1000 labels "
    "in conflict clusters of <= 150 (known finding K2 - larger clusters exhaust the recursion limit - is excluded by "
    "construction). Oracle: constructing and exporting as SVG and as TikZ text returns a non-empty document and raises nothing "
    "(watchdog + line budget for hangs); with a degenerate domain all dots are at 0. Exceptions are bucketed by (type, innermost "
    "labella frame). Non-trivial: the case belongs to a named shape class other than 'plain'; distinct = distinct spec hash."
)
ASSUMPTIONS = [
    "labels carry explicit widths whenever they have text (otherwise the library shells out to LaTeX to measure them)",
    "conflict clusters stay <= 200 labels (K2)",
    "options omitted/empty only with date/time/datetime data (numeric data need a caller-supplied LinearScale)",
]
CLASSES = ["single-datum", "all-same-time", "unsorted", "span<=10ms", "span<1min", "span>50years", "touches-29-31", "leap-day", "year-end",
           "options-none", "options-empty", "ticks-off", "alg:simple", "alg:none", "bounds:maxPos", "bounds:minPos-none"]
MIN_FRACTIONS = {"class:" + c: 0.02 for c in CLASSES}
MIN_FRACTIONS.update({"class:leap-day": 0.004, "class:year-end": 0.004, "class:span<=10ms": 0.008, "class:single-datum": 0.05, "class:all-same-time": 0.05, "class:options-none": 0.04, "class:unsorted": 0.3})


def budget(tier):
    return dict(examples=300, shards=4) if tier == "quick" else dict(examples=1500, shards=16)


@st.composite
def shaped(draw, tier):
    spec = draw(tl.timeline_spec(tier, allow_modes=True))
    shape = draw(st.sampled_from(["plain", "plain", "plain", "single", "same", "tiny", "tiny", "edge", "edge", "century", "leap-years"]))
    kind = spec["kind"]
    data = spec["data"]
    if shape == "single":
        spec["data"] = data[:1]
        spec["domain"] = None
    elif shape == "same":
        for d in data:
            d["time"] = data[0]["time"]
        spec["domain"] = None
    elif shape == "tiny" and kind == "datetime":
        base = tg.parse(draw(tg.instant()))
        width = draw(st.sampled_from([1, 2, 7, 9, 10, 50, 999, 1000, 59999]))
        for d in data:
            d["time"] = tg.iso(base + timedelta(milliseconds=draw(st.integers(0, width))))
        spec["domain"] = None
    elif shape == "edge" and kind in ("datetime", "date"):
        y = draw(st.integers(1900, 2199))
        ly = 4 * draw(st.integers(476, 549))
        if ly % 100 == 0 and ly % 400 != 0:
            ly = 2000
        anchors = [dtm.datetime(y, 1, 31), dtm.datetime(y, 3, 31), dtm.datetime(y, 12, 31), dtm.datetime(y, 2, 28), dtm.datetime(ly, 2, 28), dtm.datetime(ly, 2, 29)]
        base = draw(st.sampled_from(anchors))
        span_h = draw(st.sampled_from([30, 72, 24 * 40, 24 * 400]))
        for d in data:
            t = base + timedelta(hours=draw(st.integers(0, span_h)))
            d["time"] = tg.iso(t) if kind == "datetime" else t.date().isoformat()
        spec["domain"] = None
    elif shape == "century" and kind in ("datetime", "date"):
        for d in data:
            t = dtm.datetime(draw(st.integers(1900, 2200)), draw(st.integers(1, 12)), draw(st.sampled_from([1, 15, 28])))
            d["time"] = tg.iso(t) if kind == "datetime" else t.date().isoformat()
        spec["domain"] = None
    elif shape == "leap-years" and kind in ("datetime", "date"):
        # several years of data whose first or last datum falls on a 29 February, with a time of day
        ly = draw(st.sampled_from([1904, 1952, 1996, 2000, 2024, 2096, 2196]))
        leap = dtm.datetime(ly, 2, 29, draw(st.sampled_from([0, 8, 12, 23])), draw(st.sampled_from([0, 30, 59])))
        years = draw(st.integers(2, 60))
        last = draw(st.booleans())
        for d in data:
            off = draw(st.integers(1, years * 365))
            t = leap - timedelta(days=off) if last else leap + timedelta(days=off)
            t = min(max(t, dtm.datetime(1900, 1, 1)), dtm.datetime(2200, 12, 31))
            d["time"] = tg.iso(t) if kind == "datetime" else t.date().isoformat()
        data[draw(st.integers(0, len(data) - 1))]["time"] = tg.iso(leap) if kind == "datetime" else leap.date().isoformat()
        spec["domain"] = None
    if spec.get("options_mode", "dict") == "dict" and draw(st.integers(0, 9)) < 2 and len(spec["data"]) <= 40:
        # "any bounds": zero-width, inverted, ending at the origin, narrower than one label, upper bound only / lower bound only
        lab = spec["opts"].setdefault("labella", {})
        lo, hi = draw(st.sampled_from([(None, 0), (0, 0), (50, 50), (50.5, 50.5), (100, 20), (0, 1), (-30, 0), (10, None), (None, None), (None, 7), (0, 0.0)]))
        for k, v in (("minPos", lo), ("maxPos", hi)):
            if v is None and k == "maxPos":
                lab.pop(k, None)
            elif v is None and draw(st.booleans()):
                lab.pop(k, None)
            else:
                lab[k] = v
        spec["odd_bounds"] = True
    return spec


def big(k, m, w, jitter, direction="up"):
    """k clusters of m labels (width w) on an axis long enough to keep the clusters apart"""
    S = 2 * m * (w + 4 + 3)
    L = k * S
    data = []
    for j in range(k):
        c = j * S + S // 2
        for i in range(m):
            data.append({"time": float(c + (i * jitter) % (m // 2 + 1)), "width": w})
    o = {"direction": direction, "labella": {}}
    if direction in ("up", "down"):
        o.update(initialWidth=L + 40, initialHeight=300)
    else:
        o.update(initialWidth=300, initialHeight=L + 40)
    return dict(kind="linear", data=data, opts=o, scale="own", domain=[0.0, float(L)], options_mode="dict", big=True)


def strategy(tier):
    if tier == "quick":
        return shaped(tier)
    bigs = st.builds(big, st.integers(2, 6), st.integers(40, 150), st.sampled_from([10, 20]), st.sampled_from([0, 1, 3, 7]), st.sampled_from(["up", "down", "left", "right"]))
    return st.one_of(shaped(tier), shaped(tier), shaped(tier), shaped(tier), shaped(tier), shaped(tier), shaped(tier), bigs)


def classes(spec):
    out = []
    kind, data = spec["kind"], spec["data"]
    o = spec["opts"] if spec.get("options_mode", "dict") == "dict" else {}
    if len(data) == 1:
        out.append("single-datum")
    elif len({d["time"] for d in data}) == 1:
        out.append("all-same-time")
    tv = [tl.tau(kind, d["time"]) for d in data]
    if tv != sorted(tv):
        out.append("unsorted")
    if kind != "linear" and len(data) > 1:
        sp = max(tv) - min(tv)
        if 0 < sp <= 10:
            out.append("span<=10ms")
        if 0 < sp < 60000:
            out.append("span<1min")
        if sp > 50 * 365 * 86400e3:
            out.append("span>50years")
    if kind in ("datetime", "date"):
        ds = [dtm.date.fromisoformat(d["time"][:10]) for d in data]
        if any(x.day >= 29 for x in ds):
            out.append("touches-29-31")
        if any(x.month == 2 and x.day == 29 for x in ds):
            out.append("leap-day")
        if any(x.month == 12 and x.day == 31 for x in ds):
            out.append("year-end")
    if spec.get("options_mode") == "none":
        out.append("options-none")
    if spec.get("options_mode") == "empty":
        out.append("options-empty")
    if o.get("showTicks", True) is False:
        out.append("ticks-off")
    lab = o.get("labella", {})
    if lab.get("algorithm") in ("simple", "none"):
        out.append("alg:" + lab["algorithm"])
    if lab.get("maxPos") is not None:
        out.append("bounds:maxPos")
    if "minPos" in lab and lab["minPos"] is None:
        out.append("bounds:minPos-none")
    if spec.get("odd_bounds"):
        out.append("bounds:degenerate-or-odd")
        if lab.get("maxPos") is not None and lab.get("maxPos") == (lab.get("minPos") or 0):
            out.append("bounds:zero-width")
    if spec.get("big"):
        out.append("big-%d-labels" % (len(data) // 100 * 100))
    return out


def check(spec, ctx):
    cl = classes(spec)
    for c in cl:
        ctx.event("class:" + c)
    ctx.event("kind:" + spec["kind"])
    for backend in ("svg", "tex"):
        try:
            doc, t = tl.run(spec, backend, ctx)
        except Violation as v:
            raise Violation(v.bucket, "%s export: %s" % (backend, v.msg))
        if not doc or (backend == "svg" and "<svg" not in doc) or (backend == "tex" and "\\begin{tikzpicture}" not in doc):
            raise Violation("empty-document", "%s export returned %r..." % (backend, doc[:60]))
        dom = t.options["scale"].domain()
        if dom[0] == dom[1]:
            ctx.event("degenerate-domain")
            P = tl.parse_svg(doc) if backend == "svg" else tl.parse_tex(doc)
            for p, r, col in P["dots"]:
                if abs(p[0]) > 1e-9 or abs(p[1]) > 1e-9:
                    raise Violation("degenerate-domain-dot-not-at-start", "%s: dot at %r" % (backend, p))
    return bool(cl)
