"""C08 - drawn label boxes are pairwise disjoint and sit on the chosen side of the axis."""
from vlib import tl
from vlib.core import Violation
from vlib.props import C07

ID = "C08"
DESIGN_REF = "3/C08"
RULE = (
    "Timeline specs of C07 restricted, per the property, to label spacing >= 3 and layer gap >= 1. On the parsed boxes of both "
    "back-ends: no two closed rectangles intersect; every box lies on the side named by the direction with its near edge >= layer "
    "gap - 1 from the axis; grouping boxes by layer (number of curve pieces of their link), every farther layer starts strictly "
    "beyond the farthest edge of the nearer one. Non-trivial: two boxes of one layer within 10 units of each other, or >= 2 "
    "layers; distinct = distinct spec hash."
)
ASSUMPTIONS = ["the link/box pairing and layer of each box come from the C07 parse (which is also checked here)"] + C07.ASSUMPTIONS[:3]
MIN_FRACTIONS = {"nontrivial": 0.3, "multi-layer": 0.15, "dir:up": 0.1, "dir:down": 0.1, "dir:left": 0.1, "dir:right": 0.1, "close-boxes-in-one-layer": 0.2}


def budget(tier):
    return dict(examples=250, shards=4) if tier == "quick" else dict(examples=1500, shards=16)


def strategy(tier):
    return tl.timeline_spec(tier, min_spacing=3, min_layer_gap=1)


def check(spec, ctx):
    today, svg, ts, S, tex, tt, T = C07.both(spec, ctx)
    info = tl.check_c07(spec, S, ts, "svg", today)
    info_t = tl.check_c07(spec, T, tt, "tex", today, svg_ticks=S["ticks"])
    tl.check_c08(spec, S, info)
    try:
        tl.check_c08(spec, T, info_t)
    except Violation as v:
        raise Violation("tikz:" + v.bucket, v.msg)
    ctx.event("dir:" + spec["opts"].get("direction", "right"))
    horiz = spec["opts"].get("direction", "right") in ("up", "down")
    close = False
    byl = {}
    for lb, g in zip(S["labels"], info["got"]):
        lo = lb["origin"][0] if horiz else lb["origin"][1]
        hi = lo + (lb["w"] if horiz else lb["h"])
        byl.setdefault(g[3], []).append((lo, hi))
    for k, iv in byl.items():
        iv.sort()
        if any(b[0] - a[1] <= 10 for a, b in zip(iv, iv[1:])):
            close = True
    if close:
        ctx.event("close-boxes-in-one-layer")
    if info["maxlayer"] > 0:
        ctx.event("multi-layer")
    nt = close or info["maxlayer"] > 0
    if nt:
        ctx.event("nontrivial")
    return nt
