"""C06 - a layout is a pure function of the labels and options (history property)."""
from hypothesis import strategies as st
from hypothesis.stateful import RuleBasedStateMachine, initialize, precondition, rule

from vlib import core, engine
from vlib.core import Violation, guarded, lib_call

ID = "C06"
DESIGN_REF = "3/C06"
RULE = (
    "Rule-based state machine owning one Force: set_labels, compute, reconfigure (set_options delta), permute (same node objects "
    "re-presented in another order), lay_out_elsewhere (same node objects computed on another engine with other options, then "
    "handed back: stale positions, layer indices, stub chains), replace_labels (second label set on the same engine). After every "
    "compute the map (idealPos, width) -> multiset of (layerIndex, currentPos) must equal that of a fresh engine with the merged "
    "options over fresh nodes presented in the same order; after a permutation it must also equal the pre-permutation map when "
    "labels sharing a position share a width. Non-trivial history: a compute that follows a multi-layer layout of the same nodes, "
    "or a reconfigure/permute/elsewhere between two computes; distinct = distinct history hash."
)
ASSUMPTIONS = [
    "reference model = a fresh Force over fresh Node objects in the same process",
    "histories are recorded step by step and replayed by the same interpreter without Hypothesis",
]
MIN_FRACTIONS = {"compute-after-multi-layer": 0.2, "op:permute": 0.2, "op:elsewhere": 0.2, "op:reconfigure": 0.2, "op:replace_labels": 0.2}


def budget(tier):
    return dict(examples=200, shards=4, steps=20) if tier == "quick" else dict(examples=400, shards=16, steps=40)


def result_map(nodes):
    m = {}
    for nd in nodes:
        m.setdefault((nd.idealPos, nd.width), []).append((nd.layerIndex, nd.currentPos))
    return {k: sorted(v) for k, v in m.items()}


class Interp:
    def __init__(self, ctx):
        self.ctx = ctx
        self.force = None
        self.opts = {}
        self.lbls = []
        self.nodes = []
        self.last_map = None        # result of the last compute of the current nodes
        self.last_multi = False
        self.changed_since = False  # reconfigure/permute/elsewhere since the last compute
        self.pending_perm = None    # pre-permutation map to compare with
        self.nontrivial = False
        self.computes = 0

    def step(self, s):
        from labella.force import Force

        op = s["op"]
        self.ctx.event("op:" + op)
        if op == "new_engine":
            self.opts = dict(s["opts"])
            self.force = lib_call(Force, dict(s["opts"]))
        elif op in ("set_labels", "replace_labels"):
            self.lbls = [list(x) for x in s["labels"]]
            self.nodes = engine.build_nodes(self.lbls)
            lib_call(self.force.nodes, self.nodes)
            self.last_map = None
            self.last_multi = False
            self.changed_since = False
            self.pending_perm = None
        elif op == "reconfigure":
            self.opts.update(s["delta"])
            lib_call(self.force.set_options, dict(s["delta"]))
            self.changed_since = True
            self.pending_perm = None
        elif op == "permute":
            perm = s["perm"]
            if sorted(perm) != list(range(len(self.nodes))):
                return
            if self.last_map is not None and not self.changed_since:
                self.pending_perm = self.last_map
            self.nodes = [self.nodes[i] for i in perm]
            self.lbls = [self.lbls[i] for i in perm]
            lib_call(self.force.nodes, self.nodes)
            self.changed_since = True
        elif op == "elsewhere":
            def thunk():
                other = Force(dict(s["opts"]))
                other.nodes(list(self.nodes))
                other.compute()
            guarded(lambda: lib_call(thunk), self.ctx)
            lib_call(self.force.nodes, self.nodes)
            self.changed_since = True
            self.last_multi = self.last_multi or any(nd.parent is not None for nd in self.nodes)
        elif op == "compute":
            self.compute()
        else:
            raise core.HarnessError("unknown op %r" % op)

    def compute(self):
        from labella.force import Force

        if not self.nodes:
            return
        presented = list(self.force.nodes())
        if {id(x) for x in presented} != {id(x) for x in self.nodes}:
            raise Violation("engine-lost-nodes", "engine holds %d nodes, %d were set" % (len(presented), len(self.nodes)))
        stale = self.last_multi
        guarded(lambda: lib_call(self.force.compute), self.ctx)
        self.computes += 1
        got = result_map(self.nodes)

        def ref():
            fresh = [type(nd)(nd.idealPos, nd.width, nd.data) for nd in presented]
            f = Force(dict(self.opts))
            f.nodes(fresh)
            f.compute()
            return result_map(fresh)

        want = guarded(lambda: lib_call(ref), self.ctx)
        if got != want:
            diff = [(k, got.get(k), want.get(k)) for k in sorted(set(got) | set(want), key=repr) if got.get(k) != want.get(k)][:3]
            raise Violation("differs-from-fresh-engine", "after %d computes on this engine (stale=%r): (pos,width) -> got, fresh: %r" % (self.computes, stale, diff))
        if self.pending_perm is not None:
            ties_ok = all(len({w for p2, w in self.lbls if p2 == p}) == 1 for p, _ in self.lbls)
            if ties_ok:
                self.ctx.event("permutation-compared")
                if got != self.pending_perm:
                    diff = [(k, got.get(k), self.pending_perm.get(k)) for k in sorted(got, key=repr) if got.get(k) != self.pending_perm.get(k)][:3]
                    raise Violation("permutation-changes-layout", "(pos,width) -> after, before: %r" % (diff,))
            else:
                self.ctx.event("permutation-with-unequal-ties (proviso: not compared)")
        if stale:
            self.ctx.event("compute-after-multi-layer")
            self.nontrivial = True
        if self.changed_since and self.last_map is not None:
            self.nontrivial = True
        multi = any(nd.layerIndex > 0 for nd in self.nodes)
        self.last_multi = multi
        self.last_map = got
        self.changed_since = False
        self.pending_perm = None


def check(spec, ctx):
    it = Interp(ctx)
    for s in spec["history"]:
        it.step(s)
    return it.nontrivial


SMALL = dict(max_total=30)


def opt_delta():
    return st.fixed_dictionaries({}, optional=dict(
        nodeSpacing=st.sampled_from([0, 1, 3, 5, 2.5]),
        density=st.sampled_from([1, 0.5, 0.85, 0.3]),
        stubWidth=st.sampled_from([0, 1, 5]),
        algorithm=st.sampled_from(["overlap", "simple", "none"]),
        maxPos=st.sampled_from([None, 150, 300, 600, 1000]),
        minPos=st.sampled_from([0, None, -40, 25.5]),
    )).filter(lambda d: len(d) > 0)


def machine(tier, ctx):
    import sys

    prop = sys.modules[__name__]

    class LayoutMachine(RuleBasedStateMachine):
        def __init__(self):
            super().__init__()
            self.it = Interp(ctx)
            self.history = []
            self.dead = False

        def do(self, step):
            if self.dead:
                return
            self.history.append(step)
            try:
                self.it.step(step)
            except Violation as v:
                self.dead = True
                core.machine_violation(ctx, prop, self.history, v)

        @initialize(data=st.data())
        def start(self, data):
            lbls = data.draw(engine.labels(tier, **SMALL))
            opts = data.draw(engine.options(lbls, True))
            self.do(dict(op="new_engine", opts=opts))
            self.do(dict(op="set_labels", labels=lbls))

        @rule()
        def compute(self):
            self.do(dict(op="compute"))

        @rule()
        def recompute(self):
            self.do(dict(op="compute"))
            self.do(dict(op="compute"))

        @rule(delta=opt_delta())
        def reconfigure(self, delta):
            self.do(dict(op="reconfigure", delta=delta))

        @precondition(lambda self: len(self.it.nodes) > 1)
        @rule(data=st.data())
        def permute(self, data):
            perm = data.draw(st.permutations(list(range(len(self.it.nodes)))))
            self.do(dict(op="permute", perm=list(perm)))

        @precondition(lambda self: len(self.it.nodes) > 1)
        @rule(data=st.data())
        def compute_permute_compute(self, data):
            self.do(dict(op="compute"))
            perm = data.draw(st.permutations(list(range(len(self.it.nodes)))))
            self.do(dict(op="permute", perm=list(perm)))
            self.do(dict(op="compute"))

        @rule(data=st.data())
        def elsewhere(self, data):
            opts = data.draw(engine.options(self.it.lbls, True))
            self.do(dict(op="elsewhere", opts=opts))

        @rule(data=st.data())
        def replace_labels(self, data):
            self.do(dict(op="replace_labels", labels=data.draw(engine.labels(tier, **SMALL))))

        def teardown(self):
            if not self.dead:
                ctx.case({"history": self.history}, self.it.nontrivial, sample={"history": self.history[:8], "steps": len(self.history)})
            else:
                ctx.case({"history": self.history}, True)

    return LayoutMachine
