"""C05 - the separation-constraint solver returns a feasible, certified-optimal solution."""
import math
from fractions import Fraction as F

from hypothesis import strategies as st

from vlib import core
from vlib.core import HarnessError, Violation, guarded, lib_call

ID = "C05"
DESIGN_REF = "3/C05"
RULE = (
    "Hypothesis-generated instances: 1-30 variables (60 thorough); constraint graphs built over a random topological order as "
    "chains, forests, layered DAGs, dense DAGs, each optionally with duplicated and redundant transitive constraints, variable "
    "indices permuted; gaps >= 0 (integers, halves, floats); weights from {1e-2..1e10}; scales {0.5,1,2,4}; tied desired "
    "positions; a second family adds 1-3 back edges (cyclic clause). DAG oracle: terminates; nothing flagged unsatisfiable; every "
    "slack >= -1e-7(1+|terms|); returned cost == cost of positions; optimality by weak duality: multipliers found by scipy NNLS "
    "(tight-set KKT, then least-distance programming), dual value and cost evaluated in exact rationals, gap <= 1e-3 + 1e-9 cost. "
    "A violation of optimality is reported only with an exactly feasible witness of lower exact cost. Non-trivial: some constraint "
    "is violated at the desired positions; distinct = distinct spec hash."
)
ASSUMPTIONS = [
    "scipy NNLS only proposes multipliers; any lambda >= 0 gives a valid lower bound, so numerical error cannot wrongly certify",
    "no known finding is open: K1 (solve() stopped at a stationary cost on non-forest graphs) was repaired by /repo commit 7f5c760 and its instance is replayed on every run",
    "termination is approximated by a watchdog plus a deterministic executed-line budget",
]
MIN_FRACTIONS = {"dag": 0.6, "cyclic": 0.1, "shape:forest": 0.05, "path:split-between (violated constraint inside one block)": 0.02, "path:block-split (negative multiplier)": 0.03, "nontrivial": 0.5, "n>=10": 0.2, "non-unit-weights": 0.15, "non-unit-scales": 0.15, "has-duplicates": 0.1, "has-redundant-path": 0.1, "certified": 0.6}
TOL_ABS = 1e-3
TOL_REL = 1e-9


def budget(tier):
    return dict(examples=3000, shards=4) if tier == "quick" else dict(examples=5000, shards=16)


# ------------------------------------------------------------------ generator

GAPS = st.one_of(st.integers(0, 6), st.sampled_from([0, 0.5, 1.5, 2.5, 5.5]), st.floats(0, 10).map(lambda v: round(v, 3)))
DES = st.one_of(st.integers(-20, 20), st.integers(-3, 3).map(lambda v: v + 0.5), st.floats(-50, 50).map(lambda v: round(v, 3)), st.sampled_from([0, 4, 4, 10]))


@st.composite
def instance(draw, tier):
    nmax = 30 if tier == "quick" else 60
    n = draw(st.one_of(st.integers(1, 12), st.integers(8, nmax), st.integers(15, nmax)))
    shape = draw(st.sampled_from(["chain", "forest", "forest", "layered", "layered", "dense", "dense", "sparse", "diamonds", "diamonds"]))
    edges = []
    if shape == "chain":
        for i in range(n - 1):
            if draw(st.integers(0, 9)) < 9:
                edges.append((i, i + 1))
    elif shape == "forest":
        for i in range(1, n):
            if draw(st.integers(0, 9)) < 8:
                edges.append((draw(st.integers(0, i - 1)), i))
    elif shape == "layered":
        k = draw(st.integers(1, max(1, min(5, n))))
        layer_of = sorted(draw(st.lists(st.integers(0, k - 1), min_size=n, max_size=n)))
        for i in range(n):
            for j in range(i + 1, n):
                if layer_of[j] == layer_of[i] + 1 and draw(st.integers(0, 9)) < 4:
                    edges.append((i, j))
    elif shape == "dense":
        m = draw(st.integers(0, 3 * n))
        for _ in range(m):
            i = draw(st.integers(0, n - 1))
            j = draw(st.integers(0, n - 1))
            if i != j:
                edges.append((min(i, j), max(i, j)))
    elif shape == "diamonds":
        # a spanning forest plus a few extra edges: every extra edge closes an undirected cycle, i.e. a second path
        # between two variables - the shape in which a violated constraint can have both ends in one block
        for i in range(1, n):
            if draw(st.integers(0, 9)) < 9:
                edges.append((draw(st.integers(max(0, i - 3), i - 1)), i))
        for _ in range(draw(st.integers(1, 4))):
            if n >= 3:
                i = draw(st.integers(0, n - 3))
                j = draw(st.integers(i + 2, min(n - 1, i + 5)))
                edges.append((i, j))
    else:
        m = draw(st.integers(0, n))
        for _ in range(m):
            i = draw(st.integers(0, n - 1))
            j = draw(st.integers(0, n - 1))
            if i != j:
                edges.append((min(i, j), max(i, j)))
    cons = [[i, j, draw(GAPS)] for i, j in edges]
    dup = red = False
    if cons and shape != "forest" and shape != "chain" or (cons and draw(st.integers(0, 9)) < 2):
        if draw(st.integers(0, 9)) < 4:
            for _ in range(draw(st.integers(1, 3))):
                c = cons[draw(st.integers(0, len(cons) - 1))]
                cons.append([c[0], c[1], c[2] if draw(st.booleans()) else draw(GAPS)])
                dup = True
        if draw(st.integers(0, 9)) < 4:
            out = {}
            for i, j, g in cons:
                out.setdefault(i, []).append((j, g))
            for _ in range(draw(st.integers(1, 3))):
                a = draw(st.sampled_from(sorted(out)))
                b, g1 = out[a][draw(st.integers(0, len(out[a]) - 1))]
                if b in out:
                    c, g2 = out[b][draw(st.integers(0, len(out[b]) - 1))]
                    g = draw(st.sampled_from([g1 + g2, 0, max(0, g1 + g2 - 1), g1 + g2 + 1]))
                    cons.append([a, c, g])
                    red = True
    cyclic = draw(st.integers(0, 9)) < 2 and n >= 2
    if cyclic:
        for _ in range(draw(st.integers(1, 3))):
            i = draw(st.integers(1, n - 1))
            j = draw(st.integers(0, i - 1))
            cons.append([i, j, draw(GAPS)])
    wide_w = draw(st.integers(0, 9)) < 5
    wide_s = draw(st.integers(0, 9)) < 3
    des = [draw(DES) for _ in range(n)]
    ws = [draw(st.sampled_from([1, 1, 1, 0.01, 0.5, 3, 100, 1e4, 1e10])) if wide_w else 1 for _ in range(n)]
    ss = [draw(st.sampled_from([1, 1, 1, 0.5, 2, 4])) if wide_s else 1 for _ in range(n)]
    perm = draw(st.permutations(list(range(n))))
    cons = [[perm[i], perm[j], g] for i, j, g in cons]
    d2, w2, s2 = [0] * n, [0] * n, [0] * n
    for old, new in enumerate(perm):
        d2[new], w2[new], s2[new] = des[old], ws[old], ss[old]
    order = draw(st.sampled_from(["asis", "shuffle"]))
    if order == "shuffle" and cons:
        cons = [list(c) for c in draw(st.permutations(cons))]
    return dict(des=d2, ws=w2, ss=s2, cons=cons, cyclic=cyclic, shape=shape, dup=dup, red=red)


def strategy(tier):
    return instance(tier)


# ------------------------------------------------------------------ solver under test

PATHS = {}


def _count_paths(vpsc):
    """classification only: count how often the rarely taken solver paths run (the wrappers change nothing)"""
    undo = []
    for cls_name, meth, key in (("Block", "splitBetween", "split-between"), ("Block", "split", "block-split")):
        cls = getattr(vpsc, cls_name, None)
        raw = cls.__dict__.get(meth) if cls is not None else None
        fn = getattr(raw, "__func__", raw)
        if fn is None or not callable(fn):
            continue

        def make(fn, key, is_cm):
            def w(*a, **k):
                PATHS[key] = PATHS.get(key, 0) + 1
                return fn(*a, **k)
            return classmethod(w) if is_cm else w

        setattr(cls, meth, make(fn, key, isinstance(raw, classmethod)))
        undo.append((cls, meth, raw))
    return undo


def solve(spec, more=0):
    from labella import vpsc

    PATHS.clear()
    undo = _count_paths(vpsc)
    try:
        return _solve(vpsc, spec, more)
    finally:
        for cls, meth, raw in undo:
            setattr(cls, meth, raw)


def _solve(vpsc, spec, more):
    vs = [vpsc.Variable(d, w, s) for d, w, s in zip(spec["des"], spec["ws"], spec["ss"])]
    cs = [vpsc.Constraint(vs[i], vs[j], g) for i, j, g in spec["cons"]]
    sol = vpsc.Solver(vs, cs)
    cost = sol.solve()
    x0 = [v.position() for v in vs]
    uns = [bool(c.unsatisfiable) for c in cs]
    x1 = None
    if more:
        for _ in range(more):
            sol.satisfy()
        x1 = [v.position() for v in vs]
    return x0, cost, uns, x1


# ------------------------------------------------------------------ oracle pieces

def slack(spec, x, k):
    i, j, g = spec["cons"][k]
    return spec["ss"][j] * x[j] - spec["ss"][i] * x[i] - g


def slack_tol(spec, x, k):
    i, j, g = spec["cons"][k]
    return 1e-7 * (1 + abs(g) + abs(spec["ss"][j] * x[j]) + abs(spec["ss"][i] * x[i]))


def exact_cost(spec, x):
    return sum(F(w) * (F(xi) - F(d)) ** 2 for w, xi, d in zip(spec["ws"], x, spec["des"]))


def dual_value(spec, lam):
    n = len(spec["des"])
    des, ws, ss = spec["des"], spec["ws"], spec["ss"]
    At = [F(0)] * n
    lin = F(0)
    for (i, j, g), l in zip(spec["cons"], lam):
        l = F(max(0.0, float(l)))
        if l == 0:
            continue
        At[j] += l * F(ss[j])
        At[i] -= l * F(ss[i])
        lin += l * (F(g) - (F(ss[j]) * F(des[j]) - F(ss[i]) * F(des[i])))
    return lin - sum(a * a / (4 * F(w)) for a, w in zip(At, ws))


def kkt_lambda(spec, x):
    import numpy as np
    from scipy.optimize import nnls

    n = len(spec["des"])
    cons = spec["cons"]
    tight = [k for k in range(len(cons)) if slack(spec, x, k) <= slack_tol(spec, x, k)]
    lam = [0.0] * len(cons)
    if not tight:
        return lam
    w = np.array(spec["ws"], float)
    ss = spec["ss"]
    M = np.zeros((n, len(tight)))
    for col, k in enumerate(tight):
        i, j, g = cons[k]
        M[j, col] += ss[j] / math.sqrt(w[j])
        M[i, col] -= ss[i] / math.sqrt(w[i])
    rhs = 2 * np.sqrt(w) * (np.array(x, float) - np.array(spec["des"], float))
    cn = np.linalg.norm(M, axis=0)
    cn[cn == 0] = 1
    try:
        y, _ = nnls(M / cn, rhs, maxiter=100000)
    except Exception:
        return lam
    y = y / cn
    for col, k in enumerate(tight):
        lam[k] = float(y[col])
    return lam


def ldp(spec):
    """least-distance programming via NNLS: returns (x, lam) or (None, None)"""
    import numpy as np
    from scipy.optimize import nnls

    n = len(spec["des"])
    cons = spec["cons"]
    m = len(cons)
    if m == 0:
        return list(spec["des"]), []
    ss = spec["ss"]
    A = np.zeros((m, n))
    g = np.zeros(m)
    for k, (i, j, gap) in enumerate(cons):
        A[k, j] += ss[j]
        A[k, i] -= ss[i]
        g[k] = gap
    d = np.array(spec["des"], float)
    w = np.array(spec["ws"], float)
    B = A / np.sqrt(w)[None, :]
    h = g - A @ d
    E = np.vstack([B.T, h[None, :]])
    f = np.zeros(n + 1)
    f[n] = 1
    try:
        y, _ = nnls(E, f, maxiter=100000)
    except Exception:
        return None, None
    r = E @ y - f
    if abs(r[n]) < 1e-14:
        return None, None
    u = -r[:n] / r[n]
    x = d + u / np.sqrt(w)
    lam = 2 * y / (-r[n])
    return [float(v) for v in x], [float(v) for v in lam]


def topo_order(spec):
    n = len(spec["des"])
    indeg = [0] * n
    out = [[] for _ in range(n)]
    for i, j, g in spec["cons"]:
        out[i].append(j)
        indeg[j] += 1
    q = [i for i in range(n) if indeg[i] == 0]
    order = []
    while q:
        v = q.pop()
        order.append(v)
        for u in out[v]:
            indeg[u] -= 1
            if indeg[u] == 0:
                q.append(u)
    return order if len(order) == n else None


def repair(spec, x):
    """push variables right in topological order until exactly feasible (rationals)"""
    order = topo_order(spec)
    if order is None:
        return None
    xs = [F(v) for v in x]
    inc = {}
    for i, j, g in spec["cons"]:
        inc.setdefault(j, []).append((i, g))
    for v in order:
        for i, g in inc.get(v, []):
            need = (F(spec["ss"][i]) * xs[i] + F(g)) / F(spec["ss"][v])
            if xs[v] < need:
                xs[v] = need
    return xs


def exact_cost_q(spec, xs):
    return sum(F(w) * (xi - F(d)) ** 2 for w, xi, d in zip(spec["ws"], xs, spec["des"]))


def is_forest(spec):
    n = len(spec["des"])
    parent = list(range(n))

    def find(a):
        while parent[a] != a:
            parent[a] = parent[parent[a]]
            a = parent[a]
        return a

    seen = set()
    for i, j, g in spec["cons"]:
        e = (min(i, j), max(i, j))
        if e in seen:
            continue
        seen.add(e)
        a, b = find(i), find(j)
        if a == b:
            return False
        parent[a] = b
    return True


def certify(spec, x):
    """returns (gap, cost) with gap = exact cost - best exact dual value found"""
    c = exact_cost(spec, x)
    q = dual_value(spec, kkt_lambda(spec, x))
    tol = F(TOL_ABS) + F(TOL_REL) * c
    if c - q > tol:
        xl, lam = ldp(spec)
        if lam is not None:
            q2 = dual_value(spec, lam)
            if q2 > q:
                q = q2
    return c - q, c, tol


def check(spec, ctx):
    n = len(spec["des"])
    cons = spec["cons"]
    acyclic = topo_order(spec) is not None
    ctx.event("dag" if acyclic else "cyclic")
    ctx.event("shape:" + spec.get("shape", "?"))
    if n >= 10:
        ctx.event("n>=10")
    if any(w != 1 for w in spec["ws"]):
        ctx.event("non-unit-weights")
    if any(s != 1 for s in spec["ss"]):
        ctx.event("non-unit-scales")
    if spec.get("dup") or len({(i, j) for i, j, g in cons}) < len(cons):
        ctx.event("has-duplicates")
    forest = is_forest(spec)
    if acyclic and not forest and len({(i, j) for i, j, g in cons}) == len(cons):
        ctx.event("has-redundant-path")
    elif spec.get("red"):
        ctx.event("has-redundant-path")
    nontrivial = any(slack(spec, spec["des"], k) < 0 for k in range(len(cons)))
    if nontrivial:
        ctx.event("nontrivial")

    x, cost, uns, _ = guarded(lambda: lib_call(solve, spec), ctx)
    if PATHS.get("split-between"):
        ctx.event("path:split-between (violated constraint inside one block)")
    if PATHS.get("block-split"):
        ctx.event("path:block-split (negative multiplier)")
    if not all(isinstance(v, (int, float)) and math.isfinite(v) for v in x):
        raise Violation("non-finite-position", repr(x)[:200])
    if not acyclic:
        if any(uns):
            ctx.event("cyclic-with-flagged")
        for k in range(len(cons)):
            if not uns[k] and slack(spec, x, k) < -slack_tol(spec, x, k):
                raise Violation("cyclic-unflagged-violated", "constraint %r is not flagged unsatisfiable but has slack %r" % (cons[k], slack(spec, x, k)))
        return nontrivial
    if any(uns):
        raise Violation("dag-flagged-unsatisfiable", "constraint %r flagged in an acyclic instance" % (cons[uns.index(True)],))
    for k in range(len(cons)):
        if slack(spec, x, k) < -slack_tol(spec, x, k):
            raise Violation("infeasible", "constraint %r violated by %r at the returned positions" % (cons[k], -slack(spec, x, k)))
    mycost = sum(w * (xi - d) ** 2 for w, xi, d in zip(spec["ws"], x, spec["des"]))
    if abs(mycost - cost) > 1e-9 * (1 + abs(mycost)):
        raise Violation("cost-mismatch", "solve() returned %r, positions cost %r" % (cost, mycost))
    gap, c, tol = certify(spec, x)
    if gap <= tol:
        ctx.event("certified")
        if nontrivial and any(slack(spec, x, k) <= slack_tol(spec, x, k) and slack(spec, spec["des"], k) >= 0 for k in range(len(cons))):
            ctx.event("tight-set-differs-from-initially-violated")
        return nontrivial
    # certificate does not close: look for an exactly feasible witness with lower exact cost
    cands = []
    x0, _, _, x1 = guarded(lambda: lib_call(solve, spec, 50), ctx)
    cands.append(("satisfy-continued", x1))
    xl, _ = ldp(spec)
    if xl is not None:
        cands.append(("nnls-ldp", xl))
    best = None
    for name, xc in cands:
        xs = repair(spec, xc)
        if xs is None:
            continue
        cq = exact_cost_q(spec, xs)
        if c - cq > tol and (best is None or cq < best[1]):
            best = (name, cq, [float(v) for v in xs])
    if best is None:
        ctx.event("inconclusive (no certificate, no witness)")
        ctx.extra["inconclusive"] = ctx.extra.get("inconclusive", 0) + 1
        return nontrivial
    # does continuing satisfy() on the same solver reach a certified optimum (i.e. did solve() merely stop early)?
    g1, c1, tol1 = certify(spec, x1)
    stalled = g1 <= tol1
    bucket = "suboptimal"
    raise Violation(bucket, "cost %.9g, witness (%s) exactly feasible with cost %.9g; continued satisfy() %s; forest=%r" % (float(c), best[0], float(best[1]), "reaches the certified optimum" if stalled else "does not certify", forest))


KNOWN = {}


def attribute(bucket, spec, msg):
    """no known finding is open for this property (K1 was repaired by /repo commit 7f5c760)"""
    return None


def _fuzz(ctx, tier, seed):
    """thorough-tier supplement: coverage-guided search over the same property function (DESIGN 1)"""
    if tier != "thorough":
        return
    import sys
    from vlib import fuzz

    fuzz.supplement(sys.modules[__name__], ctx, seed, runs=60000, procs=8, seed_inputs=[b'\x01\x02\x03\x04\x05\x06\x07\x08\x01\x02\x03\x04\x05\x06\x07\x08\x01\x02\x03\x04\x05\x06\x07\x08\x01\x02\x03\x04\x05\x06\x07\x08\x01\x02\x03\x04\x05\x06\x07\x08\x01\x02\x03\x04\x05\x06\x07\x08\x01\x02\x03\x04\x05\x06\x07\x08\x01\x02\x03\x04\x05\x06\x07\x08', b'\x00\x01\x02\x03\x04\x05\x06\x07\x08\t\n\x0b\x0c\r\x0e\x0f\x10\x11\x12\x13\x14\x15\x16\x17\x18\x19\x1a\x1b\x1c\x1d\x1e\x1f !"#$%&\'()*+,-./0123456789:;<=>?', b'\xff\xff\xff\xff\xff\xff\xff\xff\xff\xff\xff\xff\xff\xff\xff\xff\xff\xff\xff\xff\xff\xff\xff\xff\xff\xff\xff\xff\xff\xff\xff\xff\xff\xff\xff\xff\xff\xff\xff\xff'])


def extra(ctx, tier, seed):
    _fuzz(ctx, tier, seed)
