"""C15 - the time scale is affine in elapsed time and invertible."""
import math
from datetime import timedelta
from fractions import Fraction as F

from hypothesis import strategies as st

from vlib import timegen as tg
from vlib.core import Violation, lib_call
from vlib.props.C12 import a_range

ID = "C15"
DESIGN_REF = "3/C15"
ROTATE_TZ = True  # shards run under different local time zones (the property must hold in all of them)
RULE = (
    "Pairs of distinct naive datetimes (ms resolution, 1900-2200, either order; spans 1 ms .. 250 years, biased to calendar edges), "
    "ranges either order, query instants inside and up to one span outside. Oracle: end points map exactly to the range ends; "
    "domain() returns the instants set (to 1 ms); |s(t) - exact affine value in epoch-ms (rationals)| within the float64 "
    "resolution of an epoch-ms value; agreement with LinearScale over epoch-ms; equal durations map to equal lengths; strict "
    "monotonicity for instants >= 1 ms apart when 1 ms is worth more than the tolerance; invert within 1 ms inside the domain. "
    "Non-trivial: the query instant differs from both ends; distinct = distinct spec hash."
)
ASSUMPTIONS = ["tolerance 8*(7.3e12*2^-52)/span_ms*|r1-r0|*max(1, extrapolation) + 1e-9*max|r|: float64 resolution of epoch milliseconds in 2200",
               "invert round trip: 1 ms + 4 ulp(max|r|)/|r1-r0| * span_ms (the float resolution of the range value, expressed in time)"]
MIN_FRACTIONS = {"inside": 0.3, "outside": 0.15, "reversed-domain": 0.15, "sub-second-span": 0.03}


def budget(tier):
    return dict(examples=2500, shards=4) if tier == "quick" else dict(examples=30000, shards=16)


@st.composite
def case(draw):
    d0, d1, sp = draw(tg.time_domain())
    if draw(st.integers(0, 9)) < 3:
        d0, d1 = d1, d0
    r = draw(a_range())
    t = draw(st.one_of(st.floats(0, 1), st.floats(-1, 2), st.sampled_from([0.0, 1.0, 0.5])))
    t2 = draw(st.floats(-1, 2))
    dur = draw(st.floats(0, 1))
    e0, e1, _ = draw(tg.time_domain())
    return dict(d0=d0, d1=d1, r=r, t=t, t2=t2, dur=dur, e0=e0, e1=e1)


def strategy(tier):
    return case()


def clampms(v):
    return max(tg.LO_MS, min(tg.HI_MS, v))


def check(spec, ctx):
    from labella.scale import LinearScale, TimeScale

    d0, d1 = tg.parse(spec["d0"]), tg.parse(spec["d1"])
    r0, r1 = spec["r"]
    m0, m1 = tg.ms(d0), tg.ms(d1)
    spm = abs(m1 - m0)
    s = lib_call(lambda: TimeScale().domain([d0, d1]).range([r0, r1]))
    y0, y1 = lib_call(s, d0), lib_call(s, d1)
    if y0 != r0 or y1 != r1:
        raise Violation("endpoints", "domain [%s, %s] -> range %r but ends map to %r, %r" % (d0, d1, [r0, r1], y0, y1))
    dom = lib_call(s.domain)
    if len(dom) != 2 or any(abs((g - w) / tg.MS) > 1 for g, w in zip(dom, (d0, d1))):
        raise Violation("domain-roundtrip", "set [%s, %s], domain() returns %r" % (d0, d1, dom))
    if d1 < d0:
        ctx.event("reversed-domain")
    if spm < 1000:
        ctx.event("sub-second-span")
    rmax = max(abs(r0), abs(r1), 1.0)
    lin = lib_call(lambda: LinearScale().domain([m0, m1]).range([r0, r1]))

    def tol_at(mx, e):
        tau = abs(mx - m0) / spm
        return 8 * (7.3e12 * 2 ** -52) / spm * abs(r1 - r0) * max(1.0, tau) + 1e-9 * max(rmax, abs(e))

    pts = []
    for t in (spec["t"], spec["t2"]):
        mx = clampms(m0 + int(round((m1 - m0) * t)))
        x = tg.from_ms(mx)
        e = F(r0) + F(mx - m0, m1 - m0) * (F(r1) - F(r0))
        y = lib_call(s, x)
        tol = tol_at(mx, float(e))
        if abs(F(y) - e) > tol:
            raise Violation("not-affine", "s(%s) = %r, exact %.12g (tol %.3g), domain [%s, %s] range %r" % (x, y, float(e), tol, d0, d1, [r0, r1]))
        yl = lib_call(lin, mx)
        if abs(yl - y) > tol:
            raise Violation("differs-from-linear-scale", "s(%s) = %r, LinearScale over epoch-ms gives %r" % (x, y, yl))
        inside = min(m0, m1) <= mx <= max(m0, m1)
        ctx.event("inside" if inside else "outside")
        if inside:
            xi = lib_call(s.invert, y)
            # one millisecond, plus what the float resolution of the range value itself is worth in time
            # (a range 0.6 wide at magnitude 615 resolves a 250-year domain to about 1.4 ms)
            inv_tol = 1 + 4 * math.ulp(rmax) / abs(r1 - r0) * spm
            if abs((xi - x) / tg.MS) > inv_tol:
                raise Violation("invert", "invert(s(%s)) = %s (tolerance %.3f ms)" % (x, xi, inv_tol))
        pts.append((mx, y, tol))
    (ma, ya, ta), (mb, yb, tb) = pts
    worth = abs(r1 - r0) / spm  # range units per ms
    if ma != mb and abs(mb - ma) * worth > 2 * (ta + tb):
        inc = (m1 > m0) == (r1 > r0)
        if ((yb > ya) == (mb > ma)) != inc:
            raise Violation("not-monotone", "s(%s)=%r, s(%s)=%r" % (tg.from_ms(ma), ya, tg.from_ms(mb), yb))
    # equal durations map to equal lengths
    dur = int(spec["dur"] * spm)
    if dur >= 1:
        u0 = clampms(min(ma, mb))
        u1 = clampms(max(ma, mb))
        if u0 + dur <= tg.HI_MS and u1 + dur <= tg.HI_MS:
            la = lib_call(s, tg.from_ms(u0 + dur)) - lib_call(s, tg.from_ms(u0))
            lb = lib_call(s, tg.from_ms(u1 + dur)) - lib_call(s, tg.from_ms(u1))
            if abs(la - lb) > 2 * (tol_at(u0 + dur, la) + tol_at(u1 + dur, lb)):
                raise Violation("equal-durations-unequal-lengths", "duration %d ms maps to %r at %s and %r at %s" % (dur, la, tg.from_ms(u0), lb, tg.from_ms(u1)))
    # the same scale object, given a second domain after it has been used: still invertible on the domain it now has
    if spec.get("e0"):
        e0, e1 = tg.parse(spec["e0"]), tg.parse(spec["e1"])
        lib_call(s.domain, [e0, e1])
        n0, n1 = tg.ms(e0), tg.ms(e1)
        mx = n0 + int(round((n1 - n0) * min(1.0, max(0.0, spec["t"]))))
        x = tg.from_ms(mx)
        y = lib_call(s, x)
        xi = lib_call(s.invert, y)
        if abs((xi - x) / tg.MS) > 1 + 4 * math.ulp(rmax) / abs(r1 - r0) * abs(n1 - n0):
            raise Violation("invert-after-domain-change", "scale used with domain [%s, %s], then given [%s, %s]: invert(s(%s)) = %s" % (d0, d1, e0, e1, x, xi))
        if lib_call(s, e0) != r0 or lib_call(s, e1) != r1:
            raise Violation("endpoints-after-domain-change", "second domain [%s, %s] does not map to the range ends" % (e0, e1))
        ctx.event("second-domain-on-used-scale")
    return pts[0][0] not in (m0, m1)
