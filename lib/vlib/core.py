"""Common machinery: collectors, watchdog, Hypothesis drivers, sharding, shrinking.

Every property module exposes (duck-typed):

  ID, RULE, ASSUMPTIONS, DESIGN_REF
  strategy(tier)              -> Hypothesis strategy producing a JSON-serialisable spec
  check(spec, ctx)            -> raises Violation(bucket, msg) when the oracle fails;
                                 returns True when the case is non-trivial by RULE
  budget(tier)                -> dict(examples=N per shard, shards=K)
optional:
  MIN_FRACTIONS               -> {event label: minimum fraction of evaluations}
  machine(tier, ctx, target)  -> RuleBasedStateMachine subclass (history properties)
  replay_history(...)         -> via check(spec) on {"history": [...]} specs
  extra(ctx, tier, seed)      -> exhaustive / enumerated parts, fuzz supplements
  attribute(bucket, spec, msg)-> id of a known finding this failure belongs to, or None
"""
import hashlib
import json
import os
import signal
import sys
import time
import traceback
from collections import Counter

ROOT = os.environ.get("VERIF_ROOT") or os.path.dirname(os.path.dirname(os.path.dirname(os.path.abspath(__file__))))
REPO = os.environ.get("LABELLA_REPO", "/repo")


class Violation(Exception):
    """The oracle of a property rejected a case."""

    def __init__(self, bucket, msg=""):
        super().__init__("%s: %s" % (bucket, msg))
        self.bucket = bucket
        self.msg = msg


class HarnessError(Exception):
    """Something is wrong with the machinery, not with labella (exit 2)."""


class HangTimeout(BaseException):
    pass


class BudgetExceeded(BaseException):
    pass


class ShrinkStop(BaseException):
    pass


def canon(spec):
    return json.dumps(spec, sort_keys=True, separators=(",", ":"), ensure_ascii=True, default=str)


def spec_hash(spec):
    return hashlib.blake2b(canon(spec).encode(), digest_size=8).hexdigest()


# --------------------------------------------------------------------------
# exceptions raised by the library -> bucket keyed by (type, innermost labella frame)

def lib_frame(tb):
    """innermost traceback frame inside the labella package (file:function)"""
    best = None
    for fs in traceback.extract_tb(tb):
        fn = fs.filename.replace("\\", "/")
        if "/labella/" in fn and "/lib/vlib/" not in fn:
            best = "%s:%s" % (os.path.basename(fn), fs.name)
    return best


def exc_bucket(e):
    where = lib_frame(e.__traceback__)
    return "exc:%s@%s" % (type(e).__name__, where or "?")


def lib_call(fn, *a, **k):
    """Call into labella; any exception becomes a Violation bucketed by root cause.
    An exception that never passed through a labella frame is a harness error."""
    try:
        return fn(*a, **k)
    except (Violation, HarnessError):
        raise
    except RecursionError as e:
        raise Violation("exc:RecursionError@" + (lib_frame(e.__traceback__) or "?"), "recursion limit")
    except Exception as e:
        where = lib_frame(e.__traceback__)
        if where is None:
            raise HarnessError("exception outside labella: %r\n%s" % (e, traceback.format_exc()))
        raise Violation("exc:%s@%s" % (type(e).__name__, where), repr(e)[:300])


# --------------------------------------------------------------------------
# termination: wall-clock watchdog decides only *whether to look*; the verdict is a
# deterministic count of executed lines (DESIGN 2.4)

WATCHDOG_S = float(os.environ.get("VERIF_WATCHDOG_S", "30"))
LINE_BUDGET = int(float(os.environ.get("VERIF_LINE_BUDGET", "5e7")))  # scale/tick/calendar calls: legitimate cases stay below 1e6 lines


DEFAULT_RECURSION_LIMIT = 1000


def _depth():
    f = sys._getframe()
    n = 0
    while f is not None:
        n += 1
        f = f.f_back
    return n


def _alarm(signum, frame):
    raise HangTimeout()


def count_lines(thunk, budget):
    """run thunk under a line counter; returns (result, lines) or raises BudgetExceeded"""
    n = [0]

    def tracer(frame, event, arg):
        if event == "line":
            n[0] += 1
            if n[0] > budget:
                raise BudgetExceeded()
        return tracer

    old = sys.gettrace()
    sys.settrace(tracer)
    try:
        r = thunk()
    finally:
        sys.settrace(old)
    return r, n[0]


class StopSearch(BaseException):
    """the shard gives up generating: every further case would cost minutes (confirmed hangs)"""


HANGS = dict(confirmed=0, assumed=0)


def guarded(thunk, ctx=None, seconds=None, budget=None):
    """Run thunk() (which must rebuild everything it needs, so that it can be re-run).
    Normal cases take milliseconds.  If the watchdog fires the case is re-run under a deterministic budget of executed
    lines: over budget => Violation('nontermination'); otherwise it was merely slow (counted).  Callers whose legitimate
    cost grows with the input (the layout engine is roughly cubic in the number of mutually conflicting labels) pass a
    watchdog and a budget that grow with it.  After one confirmed overrun in this process, later watchdog expiries are
    attributed to the same root cause without re-tracing (their verdict adds nothing), and after three the shard stops."""
    seconds = seconds or WATCHDOG_S
    budget = budget or LINE_BUDGET
    # Emulate a caller with a shallow stack: the library gets the interpreter's default 1000 frames counted from here,
    # whatever the depth of the harness (Hypothesis raises the process-wide limit while it runs a test).
    inner = thunk

    def thunk():
        old_limit = sys.getrecursionlimit()
        sys.setrecursionlimit(DEFAULT_RECURSION_LIMIT + _depth())
        try:
            return inner()
        finally:
            sys.setrecursionlimit(max(old_limit, DEFAULT_RECURSION_LIMIT))

    if not hasattr(signal, "setitimer") or sys.gettrace() is not None:
        return thunk()
    old = signal.signal(signal.SIGALRM, _alarm)
    outer = signal.setitimer(signal.ITIMER_REAL, seconds)[0]  # suspends the per-case guard, if any
    try:
        try:
            return thunk()
        except HangTimeout:
            pass
        finally:
            signal.setitimer(signal.ITIMER_REAL, 0)
            signal.signal(signal.SIGALRM, old)
        return _after_watchdog(thunk, ctx, seconds, budget)
    finally:
        if outer:
            signal.setitimer(signal.ITIMER_REAL, CASE_WATCHDOG_S)


def _after_watchdog(thunk, ctx, seconds, budget):
    if HANGS["confirmed"]:
        HANGS["assumed"] += 1
        if HANGS["assumed"] > 3:
            raise StopSearch()
        raise Violation("nontermination", "watchdog expired after %.0f s; a budget overrun was already confirmed in this run" % seconds)
    try:
        r, n = count_lines(thunk, budget)
    except BudgetExceeded:
        HANGS["confirmed"] += 1
        raise Violation("nontermination", "did not finish within %d executed lines" % budget)
    if ctx is not None:
        ctx.event("slow-case")
        ctx.slow += 1
    return r


def engine_limits(n):
    """(watchdog seconds, line budget) for a layout of n labels.  Measured worst legitimate cases: 200 mutually
    overlapping labels in 72 layers: 27 s / 4.1e8 lines; 120 labels at one position in 60 layers (through a timeline):
    46 s / 1.08e9 lines, i.e. up to ~630 n^3 lines.  The watchdog leaves a factor ~5 for a loaded machine, the budget
    a factor ~3 on top of the worst measured case."""
    n = max(1, min(n, 250))
    return 2 * WATCHDOG_S + n ** 3 / 1e4, int(3e8 + 2000 * n ** 3)


# --------------------------------------------------------------------------

class Ctx:
    """Collector for one run (or one shard of it)."""

    MAX_SAMPLES = 6

    def __init__(self, prop_id, tier, seed, collect=True, target_bucket=None):
        self.prop_id = prop_id
        self.tier = tier
        self.seed = seed
        self.collect = collect
        self.target_bucket = target_bucket
        self.evaluations = 0
        self.nontrivial = set()
        self.nontrivial_count = 0
        self.hist = Counter()
        self.samples = []
        self.buckets = {}  # bucket -> dict(spec, msg, count, shard_seed)
        self.excluded_known = Counter()
        self.slow = 0
        self.extra = {}
        self.last_failing = None  # during shrink: the most recent failing spec
        self.enumerated_nontrivial = 0  # cases of an enumerated finite domain (distinct by construction)

    def event(self, label):
        self.hist[label] += 1

    def case(self, spec, nontrivial, sample=None):
        self.evaluations += 1
        if nontrivial:
            self.nontrivial_count += 1
            self.nontrivial.add(spec_hash(spec))
            if len(self.samples) < self.MAX_SAMPLES:
                self.samples.append(sample if sample is not None else spec)

    def record(self, bucket, spec, msg):
        b = self.buckets.get(bucket)
        if b is None:
            self.buckets[bucket] = dict(spec=spec, msg=msg, count=1, seed=self.seed)
        else:
            b["count"] += 1
            if len(canon(spec)) < len(canon(b["spec"])):
                b["spec"], b["msg"] = spec, msg

    def export(self):
        return dict(
            evaluations=self.evaluations,
            nontrivial=sorted(self.nontrivial),
            nontrivial_count=self.nontrivial_count,
            hist=dict(self.hist),
            samples=self.samples,
            buckets=self.buckets,
            excluded_known=dict(self.excluded_known),
            slow=self.slow,
            extra=self.extra,
        )

    def merge(self, d):
        self.evaluations += d["evaluations"]
        self.nontrivial.update(d["nontrivial"])
        self.nontrivial_count += d["nontrivial_count"]
        self.hist.update(d["hist"])
        for s in d["samples"]:
            if len(self.samples) < self.MAX_SAMPLES:
                self.samples.append(s)
        for k, b in d["buckets"].items():
            mine = self.buckets.get(k)
            if mine is None:
                self.buckets[k] = b
            else:
                mine["count"] += b["count"]
                if len(canon(b["spec"])) < len(canon(mine["spec"])):
                    mine["spec"], mine["msg"], mine["seed"] = b["spec"], b["msg"], b["seed"]
        self.excluded_known.update(d["excluded_known"])
        self.slow += d["slow"]
        for k, v in d["extra"].items():
            if isinstance(v, (int, float)) and isinstance(self.extra.get(k), (int, float)):
                self.extra[k] += v
            elif isinstance(v, dict) and isinstance(self.extra.get(k), dict):
                for kk, vv in v.items():
                    if isinstance(vv, (int, float)):
                        self.extra[k][kk] = self.extra[k].get(kk, 0) + vv
                    else:
                        self.extra[k].setdefault(kk, vv)
            else:
                self.extra.setdefault(k, v)


CASE_WATCHDOG_S = float(os.environ.get("VERIF_CASE_WATCHDOG_S", "900"))


def with_case_watchdog(fn):
    """Outer guard for library calls that are not wrapped in guarded() (pure helpers whose legitimate cost is
    microseconds): a case that does not come back within 15 minutes is reported as a hang instead of blocking the
    check for ever.  guarded() suspends this timer while its own (budget-backed) watchdog is active."""
    if not hasattr(signal, "setitimer") or sys.gettrace() is not None:
        return fn()
    old = signal.signal(signal.SIGALRM, _alarm)
    signal.setitimer(signal.ITIMER_REAL, CASE_WATCHDOG_S)
    try:
        return fn()
    except HangTimeout:
        HANGS["assumed"] += 1
        if HANGS["assumed"] > 3:
            raise StopSearch()
        raise Violation("hang", "the case did not finish within %.0f s of wall-clock time (outer guard; calls of this kind normally take microseconds)" % CASE_WATCHDOG_S)
    finally:
        signal.setitimer(signal.ITIMER_REAL, 0)
        signal.signal(signal.SIGALRM, old)


def evaluate(prop, spec, ctx):
    """One case in collect (or shrink-target) mode. Returns nothing; never raises in
    collect mode except for harness errors."""
    if not ctx.collect and ctx.shrink_deadline and time.time() > ctx.shrink_deadline:
        raise ShrinkStop()
    try:
        nt = with_case_watchdog(lambda: prop.check(spec, ctx))
    except Violation as v:
        attr = getattr(prop, "attribute", None)
        known = attr(v.bucket, spec, v.msg) if attr else None
        if known:
            ctx.excluded_known[known] += 1
            ctx.case(spec, True)
            return
        if ctx.collect:
            ctx.record(v.bucket, spec, v.msg)
            ctx.case(spec, True)
            return
        if ctx.target_bucket is None or v.bucket == ctx.target_bucket:
            ctx.last_failing = (spec, v.msg)
            if ctx.shrink_deadline and time.time() > ctx.shrink_deadline:
                raise ShrinkStop()
            raise
        return
    ctx.case(spec, bool(nt))


def hyp_settings(examples, phases=None, steps=None):
    from hypothesis import settings, HealthCheck, Phase, Verbosity

    kw = dict(
        max_examples=examples,
        database=None,
        deadline=None,
        derandomize=False,
        report_multiple_bugs=False,
        suppress_health_check=list(HealthCheck),
        phases=phases or [Phase.generate],
        verbosity=Verbosity.quiet,
        print_blob=False,
    )
    if steps is not None:
        kw["stateful_step_count"] = steps
    return settings(**kw)


def run_generate(prop, tier, shard_seed, examples, ctx):
    """Hypothesis generate phase, collect mode."""
    import hypothesis
    from hypothesis import given

    if hasattr(prop, "machine"):
        from hypothesis.stateful import run_state_machine_as_test

        M = prop.machine(tier, ctx)
        steps = prop.budget(tier).get("steps", 20)
        try:
            run_state_machine_as_test(hypothesis.seed(shard_seed)(M), settings=hyp_settings(examples, steps=steps))
        except StopSearch:
            ctx.event("search-stopped-after-confirmed-hangs")
        return

    @hypothesis.seed(shard_seed)
    @hyp_settings(examples)
    @given(prop.strategy(tier))
    def t(spec):
        evaluate(prop, spec, ctx)

    try:
        t()
    except StopSearch:
        ctx.event("search-stopped-after-confirmed-hangs")


def run_shrink(prop, tier, shard_seed, examples, bucket, budget_s):
    """Re-run the same seeded search failing only for `bucket`, with shrinking on.
    Returns (spec, msg) of the smallest failing case found (or None)."""
    import hypothesis
    from hypothesis import given, Phase

    ctx = Ctx(prop.ID, tier, shard_seed, collect=False, target_bucket=bucket)
    ctx.shrink_deadline = None
    t0 = time.time()

    class _Deadline:
        pass

    phases = [Phase.generate, Phase.shrink]
    try:
        if hasattr(prop, "machine"):
            from hypothesis.stateful import run_state_machine_as_test

            M = prop.machine(tier, ctx)
            steps = prop.budget(tier).get("steps", 20)
            ctx.shrink_deadline = t0 + budget_s
            run_state_machine_as_test(hypothesis.seed(shard_seed)(M), settings=hyp_settings(examples, phases, steps=steps))
        else:
            @hypothesis.seed(shard_seed)
            @hyp_settings(examples, phases)
            @given(prop.strategy(tier))
            def t(spec):
                evaluate(prop, spec, ctx)

            ctx.shrink_deadline = t0 + budget_s
            t()
    except (ShrinkStop, StopSearch):
        pass
    except Violation:
        pass
    except HarnessError:
        raise
    except Exception as e:  # hypothesis Flaky etc.: keep what we have
        if ctx.last_failing is None:
            sys.stderr.write("shrink: %r\n" % (e,))
    return ctx.last_failing


Ctx.shrink_deadline = None


def reduce_spec(prop, spec, bucket, budget_s):
    """Delta-debugging on the declarative spec itself (used when re-running the seeded search does not reach the
    failure within its budget): remove list elements in halves / singly, drop optional dict keys, round numbers - keeping
    a candidate only if the *same bucket* still fails.  Candidates that are not valid specs simply do not fail."""
    t0 = time.time()
    tried = [0]

    def fails(cand):
        if time.time() - t0 > budget_s:
            raise ShrinkStop()
        tried[0] += 1
        ctx = Ctx(prop.ID, "shrink", 0)
        try:
            with_case_watchdog(lambda: prop.check(cand, ctx))
        except Violation as v:
            return v.bucket == bucket and v.msg
        except (StopSearch, HarnessError, KeyError, IndexError, TypeError, ValueError, AttributeError, ZeroDivisionError):
            return False
        return False

    def paths(x, pre=()):
        if isinstance(x, list):
            yield pre, x
            for i, v in enumerate(x):
                yield from paths(v, pre + (i,))
        elif isinstance(x, dict):
            yield pre, x
            for k, v in x.items():
                yield from paths(v, pre + (k,))

    def get(x, path):
        for k in path:
            x = x[k]
        return x

    import copy

    best, msg = spec, None
    try:
        changed = True
        while changed:
            changed = False
            for path, node in list(paths(best)):
                try:
                    node = get(best, path)
                except (KeyError, IndexError, TypeError):
                    continue
                if isinstance(node, list) and len(node) > 1:
                    n = len(node)
                    size = n // 2
                    while size >= 1:
                        i = 0
                        while i < len(get(best, path)):
                            cand = copy.deepcopy(best)
                            del get(cand, path)[i:i + size]
                            if len(get(cand, path)) >= 1:
                                m = fails(cand)
                                if m:
                                    best, msg, changed = cand, m, True
                                    continue
                            i += size
                        size //= 2
                elif isinstance(node, dict):
                    for k in list(node):
                        if path == () and k in ("kind", "labels", "data", "history", "opts", "des", "ws", "ss", "cons", "text", "unit", "t"):
                            continue
                        cand = copy.deepcopy(best)
                        del get(cand, path)[k]
                        m = fails(cand)
                        if m:
                            best, msg, changed = cand, m, True
            for path, node in list(paths(best)):
                cont = get(best, path)
                keys = range(len(cont)) if isinstance(cont, list) else list(cont)
                for k in keys:
                    v = cont[k] if not isinstance(cont, list) or k < len(cont) else None
                    if isinstance(v, float) and v != round(v):
                        cand = copy.deepcopy(best)
                        get(cand, path)[k] = float(round(v))
                        m = fails(cand)
                        if m:
                            best, msg, changed = cand, m, True
                            cont = get(best, path)
    except ShrinkStop:
        pass
    return (best, msg) if msg else None


def _chunk_entry(args):
    fn, arg, seconds = args
    old = signal.signal(signal.SIGALRM, _alarm)
    signal.setitimer(signal.ITIMER_REAL, seconds)
    try:
        return fn(arg)
    except HangTimeout:
        return ("__hang__", repr(arg)[:120])
    finally:
        signal.setitimer(signal.ITIMER_REAL, 0)
        signal.signal(signal.SIGALRM, old)


def pool_map(fn, jobs, timeout_s=None, procs=None):
    """multiprocessing map for the enumerated parts; a chunk that never returns becomes a violation, not a blocked check"""
    import multiprocessing as mp

    timeout_s = timeout_s or float(os.environ.get("VERIF_CHUNK_TIMEOUT_S", "1800"))
    pool = mp.get_context("fork").Pool(min(procs or 16, os.cpu_count() or 1))
    try:
        res = pool.map_async(_chunk_entry, [(fn, j, timeout_s) for j in jobs], chunksize=1).get(timeout=timeout_s * 2 + 60)
    except mp.TimeoutError:
        raise Violation("hang-in-enumeration", "enumeration workers did not return within %d s" % (timeout_s * 2 + 60))
    finally:
        pool.terminate()
    for r in res:
        if isinstance(r, tuple) and len(r) == 2 and r[0] == "__hang__":
            raise Violation("hang-in-enumeration", "the enumeration chunk %s did not finish within %d s (chunks normally take seconds)" % (r[1], timeout_s))
    return res


# --------------------------------------------------------------------------
# sharding

TZ_ROTATION = ["America/New_York", "Asia/Kolkata", "Australia/Lord_Howe", "Pacific/Chatham", "UTC"]


def set_process_tz(k):
    """Time properties must hold whatever the local zone is; rotating the zone over the shards makes a reintroduced
    local-time conversion visible to them (on a correct tree the zone has no effect - C18 checks exactly that)."""
    z = TZ_ROTATION[k % len(TZ_ROTATION)]
    if z != "UTC" and not os.path.exists(os.path.join("/usr/share/zoneinfo", z)):
        return os.environ.get("TZ", "")
    os.environ["TZ"] = z
    time.tzset()
    return z


def _shard_entry(args):
    prop_id, tier, shard_seed, examples = args
    from vlib import registry

    prop = registry.load(prop_id)
    if getattr(prop, "ROTATE_TZ", False):
        set_process_tz(shard_seed % 1000)
    ctx = Ctx(prop_id, tier, shard_seed)
    t0 = time.time()
    try:
        run_generate(prop, tier, shard_seed, examples, ctx)
    except HarnessError as e:
        return dict(error=str(e))
    except Exception:
        return dict(error=traceback.format_exc())
    d = ctx.export()
    d["wall"] = time.time() - t0
    d["seed"] = shard_seed
    return d


def run_sharded(prop, tier, seed, ctx):
    b = prop.budget(tier)
    shards = b.get("shards", 1)
    examples = max(1, int(b["examples"] * float(os.environ.get("VERIF_EXAMPLES_SCALE", "1"))))
    jobs = [(prop.ID, tier, seed * 1000 + k, examples) for k in range(shards)]
    if shards == 1:
        results = [_shard_entry(jobs[0])]
    else:
        import multiprocessing as mp

        with mp.get_context("fork").Pool(min(shards, os.cpu_count() or 1)) as pool:
            results = pool.map(_shard_entry, jobs, chunksize=1)
    for r in results:
        if "error" in r:
            raise HarnessError(r["error"])
        for bk in r["buckets"].values():
            bk.setdefault("seed", r["seed"])
        ctx.merge(r)
    return results


# --------------------------------------------------------------------------
# history properties: rule-based machines delegate every step to an interpreter so that
# the recorded history *is* the replay file

def machine_violation(ctx, prop, history, v):
    """called by a machine when a step's oracle failed; collect or raise"""
    spec = {"history": list(history)}
    attr = getattr(prop, "attribute", None)
    known = attr(v.bucket, spec, v.msg) if attr else None
    if known:
        ctx.excluded_known[known] += 1
        return
    if ctx.collect:
        ctx.record(v.bucket, spec, v.msg)
        return
    if ctx.target_bucket is None or v.bucket == ctx.target_bucket:
        ctx.last_failing = (spec, v.msg)
        if ctx.shrink_deadline and time.time() > ctx.shrink_deadline:
            raise ShrinkStop()
        raise v
