"""Parent side of the atheris supplement: K fuzzers in parallel, fresh corpus directories, results merged into ctx."""
import json
import os
import shutil
import subprocess
import sys

from vlib import core


def supplement(prop, ctx, seed, runs, procs=8, max_len=4096, seed_inputs=()):
    try:
        import atheris  # noqa: F401
    except Exception as e:
        ctx.extra["atheris"] = "skipped: cannot import atheris (%r)" % (e,)
        return
    base = os.path.join(core.ROOT, ".work", "fuzz-%s-%d" % (prop.ID, os.getpid()))
    shutil.rmtree(base, ignore_errors=True)
    jobs = []
    for k in range(procs):
        out = os.path.join(base, "p%d" % k)
        corpus = os.path.join(out, "corpus")
        os.makedirs(corpus)
        if k % 2 == 1:  # odd fuzzers start from a few valid byte strings, even ones from the empty corpus
            for i, b in enumerate(seed_inputs):
                with open(os.path.join(corpus, "seed%d" % i), "wb") as f:
                    f.write(b)
        cmd = [sys.executable, "-B", "-m", "vlib.fuzz_target", prop.ID, out, "-runs=%d" % runs, "-seed=%d" % (seed * 100 + k + 1), "-max_len=%d" % max_len, "-artifact_prefix=" + out + "/", "-print_final_stats=1", corpus]
        jobs.append((out, subprocess.Popen(cmd, stdout=subprocess.DEVNULL, stderr=open(os.path.join(out, "log"), "w"))))
    total_execs = 0
    for out, p in jobs:
        p.wait()
        st = os.path.join(out, "stats.json")
        if os.path.exists(st):
            d = json.load(open(st))
            total_execs += d["execs"]
            ctx.evaluations += d["evaluations"]
            ctx.nontrivial.update(d["nontrivial"])
            for k2, v in d["hist"].items():
                ctx.hist["fuzz:" + k2] += v
            ctx.excluded_known.update(d.get("excluded_known", {}))
        vf = os.path.join(out, "violation.json")
        if os.path.exists(vf):
            v = json.load(open(vf))
            ctx.record("fuzz:" + v["bucket"], v["spec"], v["msg"])
            ctx.buckets["fuzz:" + v["bucket"]]["noshrink"] = True
        elif p.returncode not in (0,):
            tail = open(os.path.join(out, "log")).read()[-400:]
            ctx.extra.setdefault("atheris_errors", []).append("exit %s: %s" % (p.returncode, tail))
    ctx.extra["atheris"] = dict(fuzzers=procs, runs_each=runs, executions=total_execs, corpus="even-numbered fuzzers: empty corpus; odd-numbered: %d seed inputs" % len(seed_inputs), note="libFuzzer campaigns are pinned only approximately by -seed; a saved failing spec is the reproducible unit")
    shutil.rmtree(base, ignore_errors=True)
