"""Worker for C10: one fresh interpreter per history. Executes construct/export steps on up to N timelines that live
together in this process and returns each export, so that a history's outcome depends on that history alone."""
import json
import sys


def main():
    from vlib import tl
    from vlib.core import Violation, guarded, lib_call

    slots = {}
    sys.stdout.write(json.dumps(dict(hello=True)) + "\n")
    sys.stdout.flush()
    for line in sys.stdin:
        line = line.strip()
        if not line:
            continue
        s = json.loads(line)
        try:
            if s["op"] == "construct":
                slots[s["slot"]] = guarded(lambda: lib_call(tl.make, s["spec"], s["backend"]))
                res = dict(ok=True)
            else:
                t = slots[s["slot"]]

                def ex():
                    d = t.export()
                    return d.decode("utf-8") if isinstance(d, bytes) else d

                res = dict(ok=True, doc=guarded(lambda: lib_call(ex)))
        except Violation as v:
            res = dict(violation=[v.bucket, v.msg])
        except BaseException as e:
            import traceback

            res = dict(error="%r\n%s" % (e, traceback.format_exc()))
        sys.stdout.write(json.dumps(res) + "\n")
        sys.stdout.flush()


if __name__ == "__main__":
    main()
