"""check <ID> [--tier quick|thorough] [--replay FILE] [--seed N]

exit 0: property held on everything explored (KNOWN-FINDING lines may be printed)
exit 1: violation; one line `VIOLATION property=<id> replay=<path>` per root cause
exit 2: harness error (never reported as a violation)
"""
import argparse
import glob
import json
import os
import re
import sys
import time
import traceback

from vlib import core, registry
from vlib.core import Ctx, HarnessError, Violation


def load_findings(prop_id):
    p = os.path.join(core.ROOT, "known_findings.json")
    if not os.path.exists(p):
        return []
    with open(p) as f:
        data = json.load(f)
    return [e for e in data.get("findings", []) if e.get("property") == prop_id]


def slug(s):
    return re.sub(r"[^A-Za-z0-9]+", "-", s).strip("-")[:60] or "x"


def write_replay(prop_id, bucket, spec, msg, tier, seed):
    d = os.path.join(core.ROOT, "replays") if core.REPO == "/repo" else os.path.join(os.environ.get("VERIF_ALT") or os.path.join(core.ROOT, ".work"), "replays-alt")
    os.makedirs(d, exist_ok=True)
    path = os.path.join(d, "%s-%s-%s.json" % (prop_id, slug(bucket), core.spec_hash(spec)))
    with open(path, "w") as f:
        json.dump(dict(property=prop_id, bucket=bucket, message=msg, tier=tier, seed=seed, spec=spec), f, indent=1, sort_keys=True, default=str)
    return path


def run_one(prop, spec):
    """plain evaluation without Hypothesis: returns None or (bucket, msg)"""
    ctx = Ctx(prop.ID, "replay", 0)
    try:
        core.with_case_watchdog(lambda: prop.check(spec, ctx))
    except Violation as v:
        return v.bucket, v.msg
    except core.StopSearch:
        return "nontermination", "watchdog expired again (hangs were already confirmed in this run)"
    return None


def do_replay(prop, path):
    with open(path) as f:
        d = json.load(f)
    spec = d["spec"] if isinstance(d, dict) and "spec" in d else d
    r = run_one(prop, spec)
    if r is None:
        print("replay %s: property %s holds on this case" % (path, prop.ID))
        return 0
    print("replay %s: %s: %s" % (path, r[0], r[1]))
    print("VIOLATION property=%s replay=%s" % (prop.ID, path))
    return 1


def main(argv=None):
    ap = argparse.ArgumentParser()
    ap.add_argument("prop")
    ap.add_argument("--tier", default=os.environ.get("VERIF_TIER") or "quick", choices=["quick", "thorough"])
    ap.add_argument("--replay")
    ap.add_argument("--seed", type=int, default=None)
    ap.add_argument("--no-shrink", action="store_true")
    a = ap.parse_args(argv)
    seed = a.seed if a.seed is not None else int(os.environ.get("VERIF_SEED") or "1")
    prop = registry.load(a.prop)
    if a.replay:
        if getattr(prop, "ROTATE_TZ", False):
            core.set_process_tz(0)
        return do_replay(prop, a.replay)

    t0 = time.time()
    ctx = Ctx(prop.ID, a.tier, seed)
    if getattr(prop, "ROTATE_TZ", False):
        ctx.extra["process_time_zones"] = "shard k runs under %s[k mod 5]; replays and enumerated parts under %s" % (core.TZ_ROTATION, core.set_process_tz(0))
    findings = load_findings(prop.ID)
    prop.KNOWN = {e["id"]: e for e in findings if e.get("status") == "known"}
    violations = []  # (bucket, spec, msg, shard_seed or None)
    known_lines = []

    # 1. replay tier: committed corpus + inputs of fixed/known findings
    replayed = 0
    for path in sorted(glob.glob(os.path.join(core.ROOT, "corpus", prop.ID, "*.json"))):
        with open(path) as f:
            d = json.load(f)
        for spec in d["specs"] if isinstance(d, dict) and "specs" in d else [d.get("spec", d)]:
            replayed += 1
            r = run_one(prop, spec)
            if r is not None:
                attr = getattr(prop, "attribute", None)
                if attr and attr(r[0], spec, r[1]):
                    ctx.excluded_known[attr(r[0], spec, r[1])] += 1
                else:
                    violations.append((r[0], spec, "corpus %s: %s" % (os.path.basename(path), r[1]), None))
    for e in findings:
        for spec in e.get("inputs", []):
            replayed += 1
            r = run_one(prop, spec)
            if e.get("status") == "known":
                if r is not None and (not e.get("bucket") or r[0] == e["bucket"] or r[0].startswith(e["bucket"])):
                    known_lines.append("KNOWN-FINDING: property=%s %s [%s] %s" % (prop.ID, e["id"], e.get("call_site", ""), e.get("what", r[0])))
                elif r is not None:
                    violations.append((r[0], spec, "input of known finding %s fails differently: %s" % (e["id"], r[1]), None))
                else:
                    ctx.extra.setdefault("known_no_longer_reproduces", []).append(e["id"])
            else:
                if r is not None:
                    violations.append((r[0], spec, "regression of fixed finding %s: %s" % (e["id"], r[1]), None))
    for line in dict.fromkeys(known_lines):
        print(line)

    # 2. generated search
    results = core.run_sharded(prop, a.tier, seed, ctx) if hasattr(prop, "budget") and prop.budget(a.tier).get("examples", 0) > 0 else []
    gen_evals = ctx.evaluations
    # 3. enumerated / exhaustive / fuzz parts
    if hasattr(prop, "extra"):
        try:
            prop.extra(ctx, a.tier, seed)
        except Violation as v:
            ctx.record(v.bucket, dict(enumerated_part=True), v.msg)
            ctx.buckets[v.bucket]["noshrink"] = True

    # 4. generator health (quick tier: the classes the property names must occur)
    health = []
    try:
        with open(os.path.join(os.path.dirname(os.path.abspath(__file__)), "health.json")) as f:
            calibrated = json.load(f).get(prop.ID, {})
    except OSError:
        calibrated = {}
    for label, frac in getattr(prop, "MIN_FRACTIONS", {}).items():
        # thresholds are at most a third of the smallest fraction observed over several seeds (tools/calibrate.py)
        frac = min(frac, calibrated.get(label, frac))
        got = ctx.hist.get(label, 0) / max(1, gen_evals)
        if got < frac:
            health.append("%s: %.4f < %.4f" % (label, got, frac))

    # 5. shrink each bucket, write replay files
    examples = prop.budget(a.tier)["examples"] if hasattr(prop, "budget") else 0
    for bucket, b in sorted(ctx.buckets.items()):
        spec, msg = b["spec"], b["msg"]
        if not a.no_shrink and b.get("seed") is not None and examples and not b.get("noshrink"):
            budget_s = 45 if a.tier == "quick" else 200
            try:
                got = core.run_shrink(prop, a.tier, b["seed"], examples, bucket, budget_s)
            except HarnessError:
                raise
            if got is not None and len(core.canon(got[0])) <= len(core.canon(spec)):
                spec, msg = got
            if got is None or len(core.canon(spec)) > 4000:
                # the seeded search did not get (far) within its budget: reduce the recorded spec directly
                red = core.reduce_spec(prop, spec, bucket, budget_s)
                if red is not None and len(core.canon(red[0])) < len(core.canon(spec)):
                    spec, msg = red
        violations.append((bucket, spec, msg, b.get("seed")))

    wall = time.time() - t0
    cov = dict(
        evaluations=ctx.evaluations,
        generated_evaluations=gen_evals,
        distinct_nontrivial=len(ctx.nontrivial) + ctx.enumerated_nontrivial,
        nontrivial_evaluations=ctx.nontrivial_count,
        rule=prop.RULE,
        samples=ctx.samples,
        histogram=dict(sorted(ctx.hist.items())),
        shards=prop.budget(a.tier).get("shards", 1) if hasattr(prop, "budget") else 0,
        examples_per_shard=examples,
        replayed_corpus_and_findings=replayed,
        excluded_known=dict(ctx.excluded_known),
        slow_cases=ctx.slow,
        buckets={k: v["count"] for k, v in ctx.buckets.items()},
        known_findings_reported=len(set(known_lines)),
        generator_health=health or "ok",
        repo=core.REPO,
    )
    cov.update(ctx.extra)
    ev = dict(
        property_id=prop.ID,
        tier=a.tier,
        seed=seed,
        level="exploration",
        coverage=cov,
        assumptions=list(getattr(prop, "ASSUMPTIONS", [])),
        wall_s=round(wall, 2),
        violations=len(violations),
    )
    # runs against a scratch copy (mutation testing) never touch the committed evidence
    evdir = os.path.join(core.ROOT, "evidence") if core.REPO == "/repo" else os.path.join(os.environ.get("VERIF_ALT") or os.path.join(core.ROOT, ".work"), "evidence-alt")
    os.makedirs(evdir, exist_ok=True)
    with open(os.path.join(evdir, prop.ID + ".json"), "w") as f:
        json.dump(ev, f, indent=1, sort_keys=True, default=str)

    for bucket, spec, msg, sseed in violations:
        path = write_replay(prop.ID, bucket, spec, msg, a.tier, sseed)
        print("%s %s: %s" % (prop.ID, bucket, (msg or "")[:400]))
        print("VIOLATION property=%s replay=%s" % (prop.ID, path))
    print("%s %s seed=%d: %d evaluations, %d distinct non-trivial, %d violation bucket(s), %.1fs" % (prop.ID, a.tier, seed, ctx.evaluations, len(ctx.nontrivial) + ctx.enumerated_nontrivial, len(violations), wall))
    if violations:
        return 1
    if health:
        sys.stderr.write("harness: generator stopped producing named classes: %s\n" % "; ".join(health))
        return 2
    return 0


if __name__ == "__main__":
    try:
        rc = main()
    except HarnessError as e:
        sys.stderr.write("HARNESS ERROR: %s\n" % e)
        rc = 2
    except SystemExit:
        raise
    except BaseException:
        sys.stderr.write("HARNESS ERROR:\n" + traceback.format_exc())
        rc = 2
    sys.stdout.flush()
    sys.exit(rc)
