"""The C19 relation between a text and its TeX rendering (also used by C07/C09 for TikZ label texts).

allowed(inp, out): `out` is obtained from `inp` by replacing, left to right, either nothing (identical character), or a
precomposed character with canonical decomposition (base, mark) by \\a{R(base)}, or a base character followed by combining
marks by nested \\a{...{R(base)}}; `a` must be the standard LaTeX accent command when the mark is one of the 15 standard
accents.  Conversion is *required* when the base is an ASCII letter and the (first) mark is one of the 15.
"""
import functools
import sys
import unicodedata

STD = {
    0x0300: "`", 0x0301: "'", 0x0302: "^", 0x0308: '"', 0x030B: "H", 0x0303: "~", 0x0327: "c", 0x0328: "k",
    0x0304: "=", 0x0331: "b", 0x0307: ".", 0x0323: "d", 0x030A: "r", 0x0306: "u", 0x030C: "v",
}
INV = {v: chr(k) for k, v in STD.items()}


def is_mark(ch):
    return unicodedata.category(ch) in ("Mn", "Mc") and unicodedata.combining(ch) != 0


def canon2(ch):
    d = unicodedata.decomposition(ch)
    if not d or d.startswith("<"):
        return None
    p = d.split()
    if len(p) != 2:
        return None
    b, m = chr(int(p[0], 16)), chr(int(p[1], 16))
    return (b, m) if is_mark(m) else None


def cmd_ends(mark, out, j):
    """positions just after '\\<cmd>{' for `mark` at out[j:]"""
    if j >= len(out) or out[j] != "\\":
        return []
    if ord(mark) in STD:
        c = STD[ord(mark)]
        return [j + 1 + len(c) + 1] if out.startswith(c + "{", j + 1) else []
    k = j + 1
    if k < len(out) and not out[k].isalpha():
        return [k + 2] if out.startswith("{", k + 1) else []
    while k < len(out) and out[k].isalpha():
        k += 1
    return [k + 1] if (k > j + 1 and out.startswith("{", k)) else []


def allowed(inp, out):
    if len(inp) > 400:
        sys.setrecursionlimit(max(sys.getrecursionlimit(), 20000))

    @functools.lru_cache(None)
    def single(ch, j, strict=True):
        """end positions of a rendering of the one-character text `ch` starting at out[j];
        inside the argument of an accent command (strict=False) the character may stay as it is"""
        ends = set()
        c2 = canon2(ch)
        req = bool(strict and c2 and c2[0].isascii() and c2[0].isalpha() and ord(c2[1]) in STD)
        if c2:
            b, mk = c2
            for j2 in cmd_ends(mk, out, j):
                for e in single(b, j2, False):
                    if out.startswith("}", e):
                        ends.add(e + 1)
        if not req and out.startswith(ch, j):
            ends.add(j + len(ch))
        return frozenset(ends)

    def nest(ch, marks, j):
        if not marks:
            return single(ch, j, False)
        ends = set()
        for j2 in cmd_ends(marks[-1], out, j):
            for e in nest(ch, marks[:-1], j2):
                if out.startswith("}", e):
                    ends.add(e + 1)
        return ends

    @functools.lru_cache(None)
    def go(i, j):
        if i == len(inp):
            return j == len(out)
        ch = inp[i]
        marks = []
        k = i + 1
        while k < len(inp) and is_mark(inp[k]) and len(marks) < 32:
            marks.append(inp[k])
            k += 1
        req = bool(marks and ch.isascii() and ch.isalpha() and ord(marks[0]) in STD)
        for n in range(len(marks), 0, -1):
            for e in nest(ch, tuple(marks[:n]), j):
                if go(i + n + 1, e):
                    return True
        if not req:
            for e in single(ch, j):
                if go(i + 1, e):
                    return True
        return False

    return go(0, 0)


def readback(out):
    """replace \\a{X} (a one of the 15 standard accent commands) by X + combining mark, recursively"""
    def parse(i, stop_at_brace):
        res = []
        while i < len(out):
            c = out[i]
            if stop_at_brace and c == "}":
                return "".join(res), i
            if c == "\\" and i + 2 < len(out) and out[i + 1] in INV and out[i + 2] == "{":
                inner, j = parse(i + 3, True)
                if j is not None:
                    res.append(inner + INV[out[i + 1]])
                    i = j + 1
                    continue
            res.append(c)
            i += 1
        return "".join(res), None

    return parse(0, False)[0]


def tex_text_matches(original, rendered):
    """relation used by the timeline checks for TikZ label texts"""
    return allowed(original, rendered)
