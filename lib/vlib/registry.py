import importlib

IDS = ["C%02d" % i for i in range(1, 21)]


def load(prop_id):
    if prop_id not in IDS:
        raise SystemExit("unknown property %r" % prop_id)
    return importlib.import_module("vlib.props.%s" % prop_id)
