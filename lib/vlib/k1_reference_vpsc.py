"""Frozen copy of labella/vpsc.py as of /repo commit 7ed8e24 (pinned tree + fix D1), used ONLY to recognise known finding K1:
a sub-optimal result is attributed to K1 if and only if this reference returns the same positions on the same instance,
i.e. the solver under test stalls exactly where the recorded baseline stalls.  It is never used as a correctness oracle."""
from sys import maxsize


class PositionStats(object):
    def __init__(self, scale):
        self.scale = scale
        self.AB = 0
        self.AD = 0
        self.A2 = 0

    def addVariable(self, v):
        ai = self.scale / v.scale
        bi = v.offset / v.scale
        wi = v.weight
        self.AB += wi * ai * bi
        self.AD += wi * ai * v.desiredPosition
        self.A2 += wi * ai * ai

    def getPosn(self):
        return (self.AD - self.AB) / self.A2


class Constraint(object):
    def __init__(self, left, right, gap, equality=None):
        if equality is None:
            equality = False
        self.left = left
        self.right = right
        self.gap = gap
        self.equality = equality
        self.active = False
        self.unsatisfiable = False

    def slack(self):
        if self.unsatisfiable:
            return maxsize
        return (
            self.right.scale * self.right.position()
            - self.gap
            - self.left.scale * self.left.position()
        )

    def __repr__(self):
        s = "Constraint(left=%r, right=%r, gap=%r, equality=%r)" % (
            self.left,
            self.right,
            self.gap,
            self.equality,
        )
        return s

    def __str__(self):
        return repr(self)


class Variable(object):
    def __init__(self, desiredPosition, weight=None, scale=None):
        if weight is None:
            weight = 1
        if scale is None:
            scale = 1
        self.desiredPosition = desiredPosition
        self.weight = weight
        self.scale = scale
        self.offset = 0
        self.node = None

    def dfdv(self):
        return 2.0 * self.weight * (self.position() - self.desiredPosition)

    def position(self):
        return (
            self.block.ps.scale * self.block.posn + self.offset
        ) / self.scale

    def visitNeighbours(self, prev, f):
        def ff(c, _next):
            return c.active and prev != _next and f(c, _next)

        for c in self.cOut:
            ff(c, c.right)
        for c in self.cIn:
            ff(c, c.left)

    def __repr__(self):
        s = "Variable(desiredPos=%r, weight=%r, scale=%r, offset=%r)" % (
            self.desiredPosition,
            self.weight,
            self.scale,
            self.offset,
        )
        return s

    def __str__(self):
        return repr(self)


class Block(object):
    def __init__(self, v):
        self.vars = []
        v.offset = 0
        self.ps = PositionStats(v.scale)
        self.addVariable(v)

    def addVariable(self, v):
        v.block = self
        self.vars.append(v)
        self.ps.addVariable(v)
        self.posn = self.ps.getPosn()

    def updateWeightedPosition(self):
        self.ps.AB = 0
        self.ps.AD = 0
        self.ps.A2 = 0
        for i in range(len(self.vars)):
            self.ps.addVariable(self.vars[i])
        self.posn = self.ps.getPosn()

    def compute_lm(self, v, u, postAction):
        dfdv = v.dfdv()
        _self = self

        def f(c, _next):
            nonlocal dfdv
            _dfdv = _self.compute_lm(_next, v, postAction)
            if _next == c.right:
                dfdv += _dfdv * c.left.scale
                c.lm = _dfdv
            else:
                dfdv += _dfdv * c.right.scale
                c.lm = -_dfdv
            postAction(c)

        v.visitNeighbours(u, f)
        return dfdv / v.scale

    def populateSplitBlock(self, v, prev):
        _self = self

        def f(c, _next):
            _next.offset = v.offset
            if _next == c.right:
                _next.offset += c.gap
            else:
                _next.offset -= c.gap
            _self.addVariable(_next)
            _self.populateSplitBlock(_next, v)

        v.visitNeighbours(prev, f)

    def traverse(self, visit, acc, v, prev):
        _self = self
        if not v:
            v = self.vars[0]
        if not prev:
            prev = None

        def f(c, _next):
            acc.push(visit(c))
            _self.traverse(visit, acc, _next, v)

        v.visitNeighbours(prev, f)

    def findMinLM(self):
        m = None

        def f(c):
            nonlocal m
            if not c.equality and (m is None or c.lm < m.lm):
                m = c

        self.compute_lm(self.vars[0], None, f)
        return m

    def findMinLMBetween(self, lv, rv):
        def f(x):
            pass

        self.compute_lm(lv, None, f)
        m = None

        def f(c, _next):
            nonlocal m
            if (
                not c.equality
                and c.right == _next
                and (m is None or c.lm < m.lm)
            ):
                m = c

        self.findPath(lv, None, rv, f)
        return m

    def findPath(self, v, prev, to, visit):
        _self = self
        endFound = False

        def f(c, _next):
            nonlocal endFound
            if not endFound and (
                _next == to or _self.findPath(_next, v, to, visit)
            ):
                endFound = True
                visit(c, _next)

        v.visitNeighbours(prev, f)
        return endFound

    def isActiveDirectedPathBetween(self, u, v):
        if u == v:
            return True
        for i in range(len(u.cOut) - 1, -1, -1):
            c = u.cOut[i]
            if c.active and self.isActiveDirectedPathBetween(c.right, v):
                return True
        return False

    @classmethod
    def split(cls, c):
        c.active = False
        return [
            Block.createSplitBlock(c.left),
            Block.createSplitBlock(c.right),
        ]

    @classmethod
    def createSplitBlock(cls, startVar):
        b = Block(startVar)
        b.populateSplitBlock(startVar, None)
        return b

    def splitBetween(self, vl, vr):
        c = self.findMinLMBetween(vl, vr)
        if not c is None:
            bs = Block.split(c)
            return {"constraint": c, "lb": bs[0], "rb": bs[1]}
        return None

    def mergeAcross(self, b, c, dist):
        c.active = True
        for i in range(len(b.vars)):
            v = b.vars[i]
            v.offset += dist
            self.addVariable(v)
        self.posn = self.ps.getPosn()

    def cost(self):
        _sum = 0
        for i in range(len(self.vars) - 1, -1, -1):
            v = self.vars[i]
            d = v.position() - v.desiredPosition
            _sum += d * d * v.weight
        return _sum


class Blocks(object):
    def __init__(self, vs):
        self.vs = vs
        n = len(vs)
        self._list = [None] * n
        for i in range(len(vs) - 1, -1, -1):
            b = Block(vs[i])
            self._list[i] = b
            b.blockInd = i

    def cost(self):
        _sum = 0
        for i in range(len(self._list) - 1, -1, -1):
            _sum += self._list[i].cost()
        return _sum

    def insert(self, b):
        b.blockInd = len(self._list)
        self._list.append(b)

    def remove(self, b):
        swapBlock = self._list[-1]
        if not b == swapBlock:
            self._list[b.blockInd] = swapBlock
            swapBlock.blockInd = b.blockInd
        self._list = self._list[:-1]

    def merge(self, c):
        l = c.left.block
        r = c.right.block
        dist = c.right.offset - c.left.offset - c.gap
        if len(l.vars) < len(r.vars):
            r.mergeAcross(l, c, dist)
            self.remove(l)
        else:
            l.mergeAcross(r, c, -dist)
            self.remove(r)

    def forEach(self, f):
        for b in self._list:
            f(b)

    def updateBlockPositions(self):
        for b in self._list:
            b.updateWeightedPosition()

    def split(self, inactive):
        self.updateBlockPositions()
        for b in self._list:
            v = b.findMinLM()
            if not v is None and v.lm < Solver.LAGRANGIAN_TOLERANCE:
                b = v.left.block
                newblocks = Block.split(v)
                for nb in newblocks:
                    self.insert(nb)
                self.remove(b)
                inactive.append(v)


class Solver(object):

    LAGRANGIAN_TOLERANCE = -1e-4
    ZERO_UPPERBOUND = -1e-10

    def __init__(self, vs, cs):
        self.vs = vs
        self.cs = cs
        for v in vs:
            v.cIn = []
            v.cOut = []
        for c in cs:
            c.left.cOut.append(c)
            c.right.cIn.append(c)
        self.inactive = cs[:]
        for c in self.inactive:
            c.active = False
        self.bs = None

    def cost(self):
        return self.bs.cost()

    def setStartingPositions(self, ps):
        self.inactive = self.cs[:]
        for c in self.inactive:
            c.active = False
        self.bs = Blocks(self.vs)
        for i, b in enumerate(self.bs):
            b.posn = ps[i]

    def setDesiredPositions(self, ps):
        for i, v in enumerate(self.vs):
            v.desiredPosition = ps[i]

    def mostViolated(self):
        minSlack = maxsize
        v = None
        l = self.inactive
        n = len(l)
        deletePoint = n
        for i in range(n):
            c = l[i]
            if c.unsatisfiable:
                continue
            slack = c.slack()
            if c.equality or slack < minSlack:
                minSlack = slack
                v = c
                deletePoint = i
                if c.equality:
                    break
        if deletePoint != n and (
            minSlack < Solver.ZERO_UPPERBOUND and not v.active or v.equality
        ):
            l[deletePoint] = l[n - 1]
            l = l[:-1]
        return v

    def satisfy(self):
        if self.bs is None:
            self.bs = Blocks(self.vs)
        self.bs.split(self.inactive)
        v = self.mostViolated()
        while (v) and (
            v.equality or v.slack() < Solver.ZERO_UPPERBOUND and not v.active
        ):
            lb = v.left.block
            rb = v.right.block
            if lb != rb:
                self.bs.merge(v)
            else:
                if lb.isActiveDirectedPathBetween(v.right, v.left):
                    # Cycle found
                    v.unsatisfiable = True
                    v = self.mostViolated()
                    continue
                split = lb.splitBetween(v.left, v.right)
                if not split is None:
                    self.bs.insert(split["lb"])
                    self.bs.insert(split["rb"])
                    self.bs.remove(lb)
                    self.inactive.append(split["constraint"])
                else:
                    v.unsatisfiable = True
                    v = self.mostViolated()
                    continue
                if v.slack() >= 0:
                    self.inactive.append(v)
                else:
                    self.bs.merge(v)
            v = self.mostViolated()

    def solve(self):
        self.satisfy()
        lastcost = maxsize
        cost = self.bs.cost()
        while abs(lastcost - cost) > 0.0001:
            self.satisfy()
            lastcost = cost
            cost = self.bs.cost()
        return cost
