NOTES = ("All checks: ./check <ID> --tier quick|thorough; VERIF_SEED selects the Hypothesis seed (shard k uses seed*1000+k). "
         "Exit 0 held / 1 violation (VIOLATION line + replay file under replays/) / 2 harness error. "
         "known_findings.json lists fixed defects (replayed, must pass) and known findings (reported as KNOWN-FINDING).")
NOT_YET = {}
CHECKS = {
 "C20": dict(
  design_ref="3/C20",
  technique="exhaustive enumeration (indices 0..1e6, all 3-digit codes, all 16^6 six-digit codes in thorough) + Hypothesis samples against an independent oracle",
  text="Every index 0..10^6 is compared with an independent enumeration of A-Z strings; every 3-digit colour code and (thorough) every six-digit lower-case code is compared with an independent digit-table oracle across hex2rgb/hex2rgbstr/hex2html; Hypothesis adds mixed-case codes and indices up to 1e12 judged by closed-form rank. Exhaustive over the property's finite domain in the thorough tier.",
  note="Trusts itertools.product ordering and the digit table of the oracle; mixed-case six-digit codes are sampled, not enumerated."),
}
