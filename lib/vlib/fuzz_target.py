"""Coverage-guided supplement (thorough tier): atheris/libFuzzer drives the *same* property function through
Hypothesis's fuzz_one_input, so the oracle sits inside the target.  Run as a subprocess by vlib.fuzz.

argv: <PROP_ID> <outdir> [libFuzzer args...]"""
import json
import os
import sys
import time


def main():
    prop_id, outdir = sys.argv[1], sys.argv[2]
    fargs = [sys.argv[0]] + sys.argv[3:]
    import atheris

    with atheris.instrument_imports(include=["labella"]):
        import labella.vpsc, labella.scale, labella.d3_time, labella.tex, labella.utils, labella.force, labella.distributor, labella.removeOverlap, labella.node  # noqa
    from hypothesis import given, settings, HealthCheck
    from vlib import core, registry

    prop = registry.load(prop_id)
    kf = os.path.join(core.ROOT, "known_findings.json")
    if os.path.exists(kf):
        prop.KNOWN = {e["id"]: e for e in json.load(open(kf)).get("findings", []) if e.get("property") == prop_id and e.get("status") == "known"}
    ctx = core.Ctx(prop_id, "thorough", 0)
    state = dict(n=0, last=time.time())

    def flush():
        with open(os.path.join(outdir, "stats.json.tmp"), "w") as f:
            json.dump(dict(execs=state["n"], evaluations=ctx.evaluations, nontrivial=sorted(ctx.nontrivial), hist=dict(ctx.hist), excluded_known=dict(ctx.excluded_known), samples=ctx.samples[:2]), f)
        os.replace(os.path.join(outdir, "stats.json.tmp"), os.path.join(outdir, "stats.json"))

    @settings(database=None, deadline=None, suppress_health_check=list(HealthCheck), max_examples=10)
    @given(prop.strategy("quick"))
    def t(spec):
        try:
            nt = prop.check(spec, ctx)
        except core.Violation as v:
            attr = getattr(prop, "attribute", None)
            known = attr(v.bucket, spec, v.msg) if attr else None
            if known:
                ctx.excluded_known[known] += 1
                ctx.case(spec, True)
                return
            with open(os.path.join(outdir, "violation.json"), "w") as f:
                json.dump(dict(bucket=v.bucket, msg=v.msg, spec=spec), f)
            flush()
            raise
        ctx.case(spec, bool(nt))

    def one(data):
        state["n"] += 1
        t.hypothesis.fuzz_one_input(data)
        if state["n"] % 500 == 0 or time.time() - state["last"] > 5:
            state["last"] = time.time()
            flush()

    atheris.Setup(fargs, one)
    atheris.Fuzz()


if __name__ == "__main__":
    main()
