"""Shared generator, builder and oracles for the layout-engine properties C01-C04, C06.

spec = {"labels": [[idealPos, width], ...], "opts": {engine options; absent key = library default}}
"""
from fractions import Fraction as F

from hypothesis import strategies as st

from vlib.core import Violation, engine_limits, guarded, lib_call

DEFAULTS = dict(nodeSpacing=3, minPos=0, maxPos=None, algorithm="overlap", density=0.85, stubWidth=1)
LINE_SPACING = 2
EPS = 1e-6
SOLVER_TOL = 0.02  # sqrt(4e-4): see DESIGN 3/C02
WALL_W = 1e10


def merged(opts):
    o = dict(DEFAULTS)
    o.update(opts)
    return o


# ------------------------------------------------------------------ generator

def _num(lo, hi):
    return st.one_of(
        st.integers(lo, hi),
        st.integers(lo, hi - 1).map(lambda v: v + 0.5),
        st.floats(lo, hi, allow_nan=False, allow_infinity=False).map(lambda v: round(v, 3)),
    )


WIDTHS = st.one_of(
    st.just(50), st.just(50),
    st.integers(1, 120),
    st.integers(0, 119).map(lambda v: v + 0.5),
    st.floats(0.25, 300).map(lambda v: round(v, 2) or 0.25),
    st.sampled_from([0.25, 1, 2, 7, 20, 300, 700]),
    st.sampled_from([0.001, 0.01, 0.1]),
)


@st.composite
def cluster(draw, max_items):
    centre = draw(_num(-200, 3000))
    spread = draw(st.sampled_from([0, 0, 3, 10, 40, 150, 600]))
    wmode = draw(st.sampled_from(["50", "same", "mixed", "mixed"]))
    same_w = draw(WIDTHS)
    n = draw(st.integers(1, min(12, max_items)))
    items = []
    for _ in range(n):
        if spread == 0:
            off = 0
        else:
            off = draw(st.one_of(st.just(0), st.integers(-spread, spread), st.integers(-2 * spread, 2 * spread).map(lambda v: v / 2),
                                 st.floats(-spread, spread).map(lambda v: round(v, 3))))
        w = 50 if wmode == "50" else same_w if wmode == "same" else draw(WIDTHS)
        items.append([centre + off, w])
    rep = draw(st.sampled_from([1, 1, 1, 2, 3, 5, 8, 17])) if max_items >= 2 * n else 1
    rep = max(1, min(rep, max_items // n))
    stride = draw(st.sampled_from([0, 0, 1, 0.5, 7, 33]))
    out = []
    for r in range(rep):
        out.extend([[p + r * stride, w] for p, w in items])
    return out


@st.composite
def ladder(draw, max_items):
    """evenly spaced labels that overlap their neighbours but not their second or third neighbours: spread over
    layers they are sparse where they belong while their stubs are squeezed together nearer the axis"""
    w = draw(st.sampled_from([30, 50, 50, 80]))
    stride = draw(st.sampled_from([0.35, 0.5, 0.7, 0.9, 1.1])) * w
    n = draw(st.integers(4, max(4, min(30, max_items))))
    start = draw(st.integers(-50, 500))
    return [[round(start + i * stride, 3), w] for i in range(n)]


@st.composite
def labels(draw, tier, max_total=None):
    cap = max_total or (70 if tier == "quick" else 200)
    if draw(st.integers(0, 7)) == 0:
        out = draw(ladder(cap))
        if draw(st.booleans()):
            out = out + draw(cluster(max(1, min(10, cap - len(out))))) if cap - len(out) > 0 else out
        return [list(x) for x in (draw(st.permutations(out)) if draw(st.booleans()) else out)]
    big = tier == "thorough" and draw(st.integers(0, 9)) == 0
    k = draw(st.integers(1, 6))
    out = []
    for _ in range(k):
        room = cap - len(out)
        if room <= 0:
            break
        out.extend(draw(cluster(room if big else min(room, 40))))
    perm = draw(st.sampled_from(["asis", "reverse", "shuffle"]))
    if perm == "reverse":
        out.reverse()
    elif perm == "shuffle":
        out = draw(st.permutations(out))
    return [list(x) for x in out]


def required_width(lbls, spacing):
    return sum(w for _, w in lbls) + spacing * (len(lbls) - 1)


@st.composite
def options(draw, lbls, bounds_emphasis=False, algorithms=("overlap", "overlap", "overlap", "simple", "none")):
    o = {}
    r = draw(st.integers(0, 9))
    if r < 5:
        pass  # default minPos = 0
    elif r < 7:
        o["minPos"] = None
    else:
        o["minPos"] = draw(st.one_of(st.integers(-100, 300), st.integers(-100, 300).map(lambda v: v + 0.5)))
    sp = draw(st.sampled_from(["d", "d", "d", 0, 1, 2, 3, 5, 10, 2.5, 0.5, 13.75]))
    if sp != "d":
        o["nodeSpacing"] = sp
    spacing = 3 if sp == "d" else sp
    dn = draw(st.sampled_from(["d", "d", 1, 0.5, 0.75, 0.3, 0.1]))
    if dn != "d":
        o["density"] = dn
    density = 0.85 if dn == "d" else dn
    sw = draw(st.sampled_from(["d", "d", "d", 0, 1, 2, 5, 60]))
    if sw != "d":
        o["stubWidth"] = sw
    alg = draw(st.sampled_from(algorithms))
    if alg != "overlap" or draw(st.booleans()):
        o["algorithm"] = alg
    lo = o.get("minPos", 0)
    want_max = draw(st.integers(0, 9)) < (8 if bounds_emphasis else 6)
    if want_max:
        R0 = required_width(lbls, spacing)
        mode = draw(st.sampled_from(["free", "free", "exact", "exact+", "exact-", "third", "budget", "budget-", "budget+", "roomy", "far"]))
        if mode == "free":
            W = draw(st.one_of(st.integers(20, 3000), st.sampled_from([300, 600, 900])))
        elif mode == "exact":
            W = R0
        elif mode == "exact+":
            W = R0 + draw(st.sampled_from([0.5, 1, 2]))
        elif mode == "exact-":
            W = R0 - draw(st.sampled_from([0.5, 1, 2]))
        elif mode == "third":
            W = 0.3 * R0
        elif mode == "budget":
            W = R0 / density
        elif mode == "budget-":
            W = R0 / density - draw(st.sampled_from([0.5, 1, 5]))
        elif mode == "budget+":
            # just inside the density budget: must stay in one layer (seeded change C04-G splits these when the engine's
            # default density does not reach the distributor)
            W = R0 / density + draw(st.sampled_from([0.5, 1, 5, 0.05 * R0]))
        elif mode == "roomy":
            W = 2 * R0 + 100
        else:
            W = 0.7 * R0
        if W <= 0:
            W = 20
        if len(lbls) > 60 and W * density < R0 / 8:
            # cost bound of the generator, not of the property: > 60 labels squeezed into dozens of layers take
            # tens of seconds per layout (the engine is cubic there); such label sets get a budget of at least an
            # eighth of their required width
            W = R0 / 8 / density
        o["maxPos"] = (lo if lo is not None else draw(st.integers(-100, 300))) + W
        if draw(st.integers(0, 11)) == 0:
            # an axis that ends exactly at 0 (bounds are numbers; 0 is as good as any)
            o["minPos"], o["maxPos"] = -W, 0
    if draw(st.integers(0, 11)) == 0:
        # the spacing between neighbouring stubs is 2 unless the caller configures it: Force hands every option that
        # removeOverlap knows through to it, 'lineSpacing' included (seeded change C02-G drops exactly this hand-over)
        o["lineSpacing"] = draw(st.sampled_from([0, 1, 5, 12, 2.5]))
    return o


@st.composite
def layout_spec(draw, tier, bounds_emphasis=False, max_total=None, algorithms=None):
    lbls = draw(labels(tier, max_total))
    kw = {}
    if algorithms:
        kw["algorithms"] = algorithms
    opts = draw(options(lbls, bounds_emphasis, **kw))
    spec = dict(labels=lbls, opts=opts)
    # how the configuration reaches the engine: constructor (default), set_options() afterwards, or split between the two
    via = draw(st.sampled_from(["ctor", "ctor", "ctor", "set_options", "split", "reconfigure"]))
    if via == "reconfigure" or (via != "ctor" and opts):
        # "reconfigure": the engine first lays the same node objects out under a wider label spacing, is then given the
        # options of the spec through set_options() and computes again; the second layout is the one that is judged
        # (C06 establishes that it equals the layout of a fresh engine; seeded change C01-G caches the first one)
        spec["via"] = via
        if via == "reconfigure":
            # the first layout is either narrower (a stale copy of it violates the separation) or wider (a stale copy is not optimal)
            fs = draw(st.sampled_from([0, 0, 1, "wider"]))
            final = merged(opts)["nodeSpacing"]
            spec["first_spacing"] = final + 6 if (fs == "wider" or fs >= final) else fs
    if draw(st.integers(0, 6)) == 0:
        spec["late_width"] = True
    return spec


# ------------------------------------------------------------------ builder / observation

def build_nodes(lbls, late_width=False):
    from labella.node import Node

    if not late_width:
        return [Node(p, w, data=i) for i, (p, w) in enumerate(lbls)]
    # the width is assigned after construction, as the package's own Timeline does when it adds the padding
    nodes = [Node(p, 1, data=i) for i, (p, w) in enumerate(lbls)]
    for nd, (p, w) in zip(nodes, lbls):
        nd.width = w
    return nodes


def run_layout(spec, ctx=None):
    """fresh engine + fresh nodes; returns (force, nodes)"""
    from labella.force import Force

    def thunk():
        nodes = build_nodes(spec["labels"], spec.get("late_width", False))
        f = make_force(spec)
        f.nodes(nodes)
        f.compute()
        reconfigure(f, spec)
        return f, nodes

    secs, budget = engine_limits(len(spec["labels"]))
    return guarded(lambda: lib_call(thunk), ctx, secs, budget)


def reconfigure(f, spec):
    """second half of via == "reconfigure": after the first compute() the engine gets the spec's own options and computes again"""
    if spec.get("via") == "reconfigure":
        final = dict(spec["opts"])
        final.setdefault("nodeSpacing", DEFAULTS["nodeSpacing"])
        f.set_options(final)
        f.compute()


def make_force(spec):
    from labella.force import Force

    opts, via = dict(spec["opts"]), spec.get("via", "ctor")
    if via == "reconfigure":
        f = Force(dict(opts, nodeSpacing=spec.get("first_spacing", merged(opts)["nodeSpacing"] + 6)))
    elif via == "set_options":
        f = Force()
        f.set_options(opts)
    elif via == "split":
        keys = sorted(opts)
        first = {k: opts[k] for k in keys[::2]}
        rest = {k: opts[k] for k in keys[1::2]}
        f = Force(first)
        f.set_options(rest)
    else:
        f = Force(opts)
    return f


def target(nd):
    return nd.parent.currentPos if nd.parent is not None else nd.idealPos


def rebuild_layers(nodes):
    """layering from layerIndex and the parent chains (independent of getLayers())"""
    layers = {}
    for nd in nodes:
        cur = nd
        guard = 0
        while cur is not None:
            layers.setdefault(cur.layerIndex, []).append(cur)
            cur = cur.parent
            guard += 1
            if guard > 10000:
                raise Violation("stub-chain-cycle", "parent chain does not end")
    return layers


def ordered(layer):
    """items in target order; ties resolved by the observed position (either order is allowed)"""
    return sorted(layer, key=lambda nd: (target(nd), nd.currentPos))


def gap_between(a, b, spacing, line=LINE_SPACING):
    s = line if (a.isStub() and b.isStub()) else spacing
    return (F(a.width) + F(b.width)) / 2 + F(s)


def layer_facts(layer, opts):
    """ordered items, prefix sums of required gaps (Fractions), total required width R, allowance A"""
    items = ordered(layer)
    G = [F(0)]
    for a, b in zip(items, items[1:]):
        G.append(G[-1] + gap_between(a, b, opts["nodeSpacing"], opts.get("lineSpacing", LINE_SPACING)))
    R = G[-1] + (F(items[0].width) + F(items[-1].width)) / 2
    lo, hi = opts["minPos"], opts["maxPos"]
    A = None if lo is None or hi is None else F(hi) - F(lo)
    return items, G, R, A


def check_separation(items, G, where):
    """C01 oracle: order of targets kept; for every pair i<j: pos_j - pos_i >= G_j - G_i - 1 - eps
    (adjacent required gaps add along the chain; the two roundings cost at most 1 per pair)."""
    best = None  # max of z_i = pos_i - G_i so far
    besti = None
    for j, nd in enumerate(items):
        z = nd.currentPos - float(G[j])
        if best is not None and z - best < -1 - EPS:
            a = items[besti]
            need = float(G[j] - G[besti])
            raise Violation(
                "separation",
                "%s: items %d and %d (targets %r, %r; widths %r, %r; stubs %r,%r) are %r apart, need %r - 1"
                % (where, besti, j, target(a), target(nd), a.width, nd.width, a.isStub(), nd.isStub(), nd.currentPos - a.currentPos, need),
            )
        if best is None or z > best:
            best, besti = z, j
    for a, b in zip(items, items[1:]):
        if target(a) < target(b) and b.currentPos < a.currentPos:
            raise Violation("order", "%s: target %r placed at %r but target %r placed at %r" % (where, target(a), a.currentPos, target(b), b.currentPos))


def pava(t):
    blocks = []
    for v in t:
        blocks.append([v, 1])
        while len(blocks) > 1 and blocks[-2][0] * blocks[-1][1] > blocks[-1][0] * blocks[-2][1]:
            s, c = blocks.pop()
            blocks[-1][0] += s
            blocks[-1][1] += c
    out = []
    for s, c in blocks:
        out += [s / c] * c
    return out, blocks


def optimum(items, G, opts):
    """exact least-squares optimum of the chain problem (PAVA clipped to the common box);
    returns (fits, positions as Fractions, pooled?, bound_active?, wall_give)"""
    n = len(items)
    y0 = [F(target(items[i])) - G[i] for i in range(n)]
    y, blocks = pava(y0)
    lo, hi = opts["minPos"], opts["maxPos"]
    lo_y = None if lo is None else F(lo) + F(items[0].width) / 2
    hi_y = None if hi is None else F(hi) - F(items[-1].width) / 2 - G[-1]
    fits = lo_y is None or hi_y is None or lo_y <= hi_y
    active = False
    give = F(0)
    if fits:
        z = []
        for v in y:
            c = v
            if lo_y is not None and c < lo_y:
                c = lo_y
            if hi_y is not None and c > hi_y:
                c = hi_y
            if c != v:
                active = True
                give += abs(v - c)
            z.append(c)
        y = z
    pooled = any(c >= 2 for _, c in blocks)
    return fits, [y[i] + G[i] for i in range(n)], pooled, active, give


def describe(spec):
    return dict(n=len(spec["labels"]), opts=spec["opts"], first=spec["labels"][:4])


def ambiguous_order(items):
    """two neighbours with the same target AND the same reported position but different size:
    their mutual order (which decides the neighbours' gaps) cannot be read off the output"""
    for a, b in zip(items, items[1:]):
        if target(a) == target(b) and a.currentPos == b.currentPos and (a.width != b.width or a.isStub() != b.isStub()):
            return True
    return False


def layer_classes(items, G, opts, nlayers):
    ev = []
    ev.append("multi-layer-layout" if nlayers > 1 else "single-layer-layout")
    if any(a.isStub() and b.isStub() for a, b in zip(items, items[1:])):
        ev.append("stub-stub-pair")
        if opts.get("lineSpacing", LINE_SPACING) != LINE_SPACING:
            ev.append("stub-stub-pair-with-configured-line-spacing")
    if any(float(w) != int(w) for w in (nd.width for nd in items)):
        ev.append("non-integer-width")
    if any(target(a) == target(b) for a, b in zip(items, items[1:])):
        ev.append("tied-targets")
    if any(target(nd) * 2 % 2 == 1 for nd in items):
        ev.append("half-integer-target")
    if len(items) >= 100:
        ev.append("layer>=100-items")
    return ev


def conflicts(items, G):
    return any(F(target(b)) - F(target(a)) < G[i + 1] - G[i] for i, (a, b) in enumerate(zip(items, items[1:])))
