"""Long-lived worker: evaluates time-scale / calendar / timeline computations under the TZ it was started with.
Protocol: one JSON object per line on stdin -> one JSON object per line on stdout."""
import json
import sys
import time
from datetime import timedelta


def compute(spec):
    from vlib import timegen as tg
    from vlib.core import Violation, guarded

    out = []

    def add(label, fn):
        try:
            out.append((label, repr(guarded(fn))))
        except Violation as v:
            out.append((label, "VIOLATION " + v.bucket))
        except RecursionError:
            out.append((label, "EXC RecursionError"))
        except Exception as e:
            out.append((label, "EXC %s %s" % (type(e).__name__, str(e)[:80])))

    kind = spec["kind"]
    if kind == "scale":
        from labella.scale import TimeScale

        d0, d1, m = tg.parse(spec["d0"]), tg.parse(spec["d1"]), spec["m"]
        r = spec["r"]
        mk = lambda: TimeScale().domain([d0, d1]).range(list(r))
        add("ticks", lambda: (mk().ticks() if m is None else mk().ticks(m)))
        add("ticktext", lambda: [mk().tickFormat()(t) for t in (mk().ticks() if m is None else mk().ticks(m))][:60])

        def nice():
            s = mk()
            s.nice() if m is None else s.nice(m)
            return s.domain()

        add("nice", nice)
        for f in spec["fr"]:
            x = d0 + (d1 - d0) * f
            x = x.replace(microsecond=(x.microsecond // 1000) * 1000)
            add("map", lambda x=x: mk()(x))
        for y in spec["ys"]:
            add("invert", lambda y=y: mk().invert(y))
        add("domain", lambda: mk().domain())
        add("copy", lambda: mk().copy().domain())
    elif kind == "interval":
        from labella.d3_time import d3_time

        t, t1 = tg.parse(spec["t"]), tg.parse(spec["t1"])
        for u in tg.UNITS:
            iv = d3_time[u]
            add(u + ".floor", lambda: iv.floor(t))
            add(u + ".ceil", lambda: iv.ceil(t))
            add(u + ".round", lambda: iv.round(t))
            add(u + ".offset", lambda: iv.offset(iv.floor(t), spec["k"]))
        u = spec["unit"]
        add(u + ".range", lambda: d3_time[u].range(t, t1, spec["dt"]))
        add("dayOfYear", lambda: d3_time["dayOfYear"](t))
    elif kind == "timeline":
        from vlib import tl

        for backend in ("svg", "tex"):
            add(backend, lambda b=backend: tl.export(spec["tl"], b))
    else:
        raise ValueError(kind)
    return out


def main():
    sys.stdout.write(json.dumps(dict(hello=True, tzname=list(time.tzname), off_jan=time.localtime(1579046400).tm_gmtoff, off_jul=time.localtime(1594771200).tm_gmtoff)) + "\n")
    sys.stdout.flush()
    for line in sys.stdin:
        line = line.strip()
        if not line:
            continue
        try:
            res = dict(ok=compute(json.loads(line)))
        except BaseException as e:  # reported to the parent as a harness problem
            import traceback

            res = dict(error="%r\n%s" % (e, traceback.format_exc()))
        sys.stdout.write(json.dumps(res) + "\n")
        sys.stdout.flush()


if __name__ == "__main__":
    main()
