"""Instants, time domains and an independent calendar reference (datetime/timedelta/calendar only)."""
import calendar
from datetime import datetime, timedelta

from hypothesis import strategies as st

EPOCH = datetime(1970, 1, 1)
MS = timedelta(milliseconds=1)
UNITS = ["second", "minute", "hour", "day", "week", "month", "year"]
YEAR_LO, YEAR_HI = 1900, 2200


def ms(t):
    """exact integer milliseconds since the naive epoch (instants have ms resolution)"""
    return (t - EPOCH) // MS


def from_ms(v):
    return EPOCH + timedelta(milliseconds=v)


def iso(t):
    return t.isoformat(timespec="milliseconds")


def parse(s):
    return datetime.fromisoformat(s)


LO_MS = ms(datetime(YEAR_LO, 1, 1))
HI_MS = ms(datetime(YEAR_HI, 12, 31, 23, 59, 59, 999000))


# ---------------------------------------------------------------- reference calendar

def ofloor(u, t):
    if u == "second":
        return t.replace(microsecond=0)
    if u == "minute":
        return t.replace(second=0, microsecond=0)
    if u == "hour":
        return t.replace(minute=0, second=0, microsecond=0)
    d = t.replace(hour=0, minute=0, second=0, microsecond=0)
    if u == "day":
        return d
    if u == "week":
        return d - timedelta(days=d.isoweekday() % 7)
    if u == "month":
        return d.replace(day=1)
    if u == "year":
        return d.replace(month=1, day=1)
    raise ValueError(u)


def onext(u, b, k=1):
    if u == "second":
        return b + timedelta(seconds=k)
    if u == "minute":
        return b + timedelta(minutes=k)
    if u == "hour":
        return b + timedelta(hours=k)
    if u == "day":
        return b + timedelta(days=k)
    if u == "week":
        return b + timedelta(days=7 * k)
    if u == "month":
        m = b.year * 12 + b.month - 1 + k
        return b.replace(year=m // 12, month=m % 12 + 1)
    if u == "year":
        return b.replace(year=b.year + k)
    raise ValueError(u)


def oceil(u, t):
    f = ofloor(u, t)
    return f if f == t else onext(u, f)


def oround(u, t):
    f = ofloor(u, t)
    n = onext(u, f)
    return f if (t - f) < (n - t) else n


def unit_number(u, b):
    return {"second": b.second, "minute": b.minute, "hour": b.hour, "day": b.day - 1, "month": b.month - 1, "year": b.year}[u]


def gran(gap_ms):
    """coarsest calendar unit implied by a tick spacing"""
    if gap_ms >= 365 * 86400e3:
        return "year"
    if gap_ms >= 28 * 86400e3:
        return "month"
    if gap_ms >= 86400e3:
        return "day"
    if gap_ms >= 3600e3:
        return "hour"
    if gap_ms >= 60e3:
        return "minute"
    if gap_ms >= 1e3:
        return "second"
    return "ms"


# ---------------------------------------------------------------- strategies (all produce ISO strings / ints)

@st.composite
def instant(draw, year_lo=YEAR_LO, year_hi=YEAR_HI):
    y = draw(st.one_of(st.integers(year_lo, year_hi), st.integers(max(year_lo, 1965), min(year_hi, 2035)),
                       st.sampled_from([v for v in (1900, 1969, 1970, 1999, 2000, 2024, 2038, 2100, 2199, 2200) if year_lo <= v <= year_hi] or [year_lo])))
    mo = draw(st.integers(1, 12))
    last = calendar.monthrange(y, mo)[1]
    d = draw(st.one_of(st.integers(1, last), st.sampled_from([last, last, 1, min(28, last), min(29, last), min(30, last)])))
    if draw(st.integers(0, 19)) == 0:
        mo, d = 2, calendar.monthrange(y, 2)[1]
    if draw(st.integers(0, 19)) == 0:
        mo, d = 12, 31
    r = draw(st.integers(0, 9))
    if r < 2:
        h = mi = s = msec = 0
    elif r < 3:
        h, mi, s, msec = 23, 59, 59, 999
    else:
        h = draw(st.sampled_from([0, 23, 12])) if draw(st.booleans()) else draw(st.integers(0, 23))
        mi = draw(st.sampled_from([0, 59])) if draw(st.booleans()) else draw(st.integers(0, 59))
        s = draw(st.sampled_from([0, 59])) if draw(st.booleans()) else draw(st.integers(0, 59))
        msec = draw(st.sampled_from([0, 0, 999, 1, 500])) if draw(st.booleans()) else draw(st.integers(0, 999))
    t = datetime(y, mo, d, h, mi, s, msec * 1000)
    if draw(st.integers(0, 9)) == 0:  # weekend boundary
        t = ofloor("week", t) + timedelta(days=draw(st.sampled_from([0, 6, 7])), milliseconds=draw(st.sampled_from([0, -1, 1])))
        if not (year_lo <= t.year <= year_hi):
            t = datetime(y, mo, d, h, mi, s, msec * 1000)
    return iso(t)


# spans (ms) around every row of d3's tick-step table (for count ~10) and a few others
TABLE = [1e3, 5e3, 15e3, 3e4, 6e4, 3e5, 9e5, 18e5, 36e5, 108e5, 216e5, 432e5, 864e5, 1728e5, 6048e5, 2592e6, 7776e6, 31536e6]
SPANS = sorted(set([1, 2, 5, 7, 9, 10, 11, 50, 999, 1000, 1001] + [int(v * k) for v in TABLE for k in (1, 3, 7, 10, 14, 30)] + [int(31536e6 * k) for k in (20, 50, 100, 200, 250)]))


@st.composite
def span_ms(draw, lo=1, hi=int(250 * 365.25 * 86400e3)):
    r = draw(st.integers(0, 9))
    if r < 4:
        v = draw(st.sampled_from(SPANS))
        if draw(st.booleans()):
            v = int(v * draw(st.floats(0.5, 3)))
    elif r < 9:
        row = draw(st.integers(0, len(TABLE) - 1))
        v = int(TABLE[row] * draw(st.sampled_from([1, 2, 4, 5, 8, 10, 12, 20, 25, 50])) * draw(st.floats(0.4, 2.5)))
        if row == len(TABLE) - 1 and draw(st.booleans()):
            v = int(31536e6 * draw(st.integers(1, 250)))
    else:
        v = draw(st.integers(1, 3000))
    return max(lo, min(hi, v))


@st.composite
def time_domain(draw, lo_span=1, hi_span=int(250 * 365.25 * 86400e3)):
    """returns (iso0, iso1, span_ms) with iso0 < iso1, both within the supported years"""
    t0 = parse(draw(instant()))
    sp = draw(span_ms(lo_span, hi_span))
    a = ms(t0)
    if a + sp > HI_MS:
        a = a - sp
    if a < LO_MS:
        a = LO_MS
        sp = min(sp, HI_MS - LO_MS)
    return iso(from_ms(a)), iso(from_ms(a + sp)), sp
