#!/usr/bin/env python3
"""Regenerates MANIFEST.json from the table below (kept in one place so the manifest is always valid)."""
import json, os, sys
ROOT = os.path.dirname(os.path.abspath(__file__))
sys.path.insert(0, os.path.join(ROOT, "lib"))
from vlib import manifest_data as M

props = [json.loads(l) for l in open(os.path.join(ROOT, "properties.jsonl"))]
checks = []
na = []
for p in props:
    pid = p["id"]
    d = M.CHECKS.get(pid)
    if d is None:
        na.append(dict(property_id=pid, reason=M.NOT_YET.get(pid, "check not built yet in this session; see DESIGN.md")))
        continue
    checks.append(dict(
        property_id=pid,
        quick_cmd="./check %s --tier quick" % pid,
        thorough_cmd="./check %s --tier thorough" % pid,
        evidence_file="evidence/%s.json" % pid,
        replay_cmd_template="./check %s --replay {path}" % pid,
        engine="hypothesis-pbt",
        level_claimed=dict(category="exploration", text=d["text"], design_ref=d["design_ref"]),
        level_note=d["note"],
        technique=d["technique"],
    ))
man = dict(
    version=1,
    setup_cmd="./setup.sh",
    hooks=dict(
        guard="LABELLA_VERIF",
        enable="none needed: every observation point is public API; checks import /repo's working tree via PYTHONPATH (pure Python, no build step)",
        baseline_off_cmd="cd /repo && /venv/bin/python -m pytest -ra -q -p no:cacheprovider --timeout=900 --continue-on-collection-errors",
        source_commits=[],
        add_only=True,
    ),
    engines=[dict(name="hypothesis-pbt", path="lib/vlib", serves_properties=[c["property_id"] for c in checks],
                  kind_free_text="Hypothesis 6.168 generators (given + rule-based state machines) with explicit oracles, exhaustive enumeration of finite domains, atheris supplements in the thorough tier; collect-bucket-shrink-replay runner")],
    checks=checks,
    notes=M.NOTES,
)
if na:
    man["not_applicable"] = na
json.dump(man, open(os.path.join(ROOT, "MANIFEST.json"), "w"), indent=1)
print("MANIFEST.json: %d checks, %d not claimed" % (len(checks), len(na)))
