#!/bin/sh
# tools/mut.sh <patch.diff> <ID>... : apply a patch to a scratch copy of /repo, run the unit tests, then the named quick checks.
# The scratch copy lives under /var/tmp and is removed afterwards.
set -u
patch="$1"; shift
ROOT="$(cd "$(dirname "$0")/.." && pwd)"
M=$(mktemp -d /var/tmp/labella-mut-XXXXXX)
cp -r /repo/labella /repo/tests "$M/"
[ -f /repo/pyproject.toml ] && cp /repo/pyproject.toml /repo/setup.py "$M/" 2>/dev/null
if ! patch -d "$M" -p1 -s < "$patch"; then echo "PATCH FAILED"; rm -rf "$M"; exit 3; fi
( cd "$M" && PYTHONPATH="$M" /venv/bin/python -m pytest -q -p no:cacheprovider -x tests 2>&1 | tail -1 )
for id in "$@"; do
  LABELLA_REPO="$M" "$ROOT/check" "$id" --tier "${TIER:-quick}" ${SEED:+--seed $SEED} 2>&1 | grep -E "VIOLATION|seed=|HARNESS|harness" | cut -c1-260
done
rm -rf "$M"
