#!/usr/bin/env python3
"""Sensitivity protocol (DESIGN 2.7): apply each deliberately broken variant to a scratch copy of /repo, make sure the
repository's own tests still pass, run the owning quick checks and report which of them turn red.

usage: tools/selfmut.py [name-substring ...]      (scratch copies live under /var/tmp and are removed)
"""
import os
import shutil
import subprocess
import sys
import tempfile

ROOT = os.path.dirname(os.path.dirname(os.path.abspath(__file__)))

# (name, file, old, new, checks expected to notice)
M = [
 ("m01-stub-stub-spacing-0", "labella/removeOverlap.py", '/ 2 + options["lineSpacing"]', "/ 2 + 0", ["C01", "C02", "C03"]),
 ("m02-node-spacing-minus-1", "labella/removeOverlap.py", '/ 2 + options["nodeSpacing"]', '/ 2 + options["nodeSpacing"] - 1', ["C01", "C02", "C08"]),
 ("m03-floor-instead-of-round", "labella/removeOverlap.py", "round(v.position())", "int(v.position() // 1)", ["C01", "C02"]),
 ("m04-right-wall-full-width", "labella/removeOverlap.py", "vpsc.Constraint(lastv, rightWall, lastv.node.width / 2)", "vpsc.Constraint(lastv, rightWall, lastv.node.width)", ["C02", "C03"]),
 ("m05-soft-walls", "labella/removeOverlap.py", 'vpsc.Variable(options["maxPos"], 1e10)', 'vpsc.Variable(options["maxPos"], 1)', ["C02", "C03"]),
 ("m06-target-from-stub-idealpos", "labella/removeOverlap.py", "node.parent.currentPos if node.parent else node.idealPos", "node.parent.idealPos if node.parent else node.idealPos", ["C01", "C02"]),
 ("m07-stub-weight-3", "labella/removeOverlap.py", "v = vpsc.Variable(node.targetPos)", "v = vpsc.Variable(node.targetPos, 3 if node.isStub() else 1)", ["C02"]),
 ("m08-coarse-lagrangian-tolerance", "labella/vpsc.py", "LAGRANGIAN_TOLERANCE = -1e-4", "LAGRANGIAN_TOLERANCE = -2.0", ["C05", "C02"]),
 ("m09-never-split", "labella/vpsc.py", "if not v is None and v.lm < Solver.LAGRANGIAN_TOLERANCE:", "if False and v.lm < Solver.LAGRANGIAN_TOLERANCE:", ["C05"]),
 ("m10-solve-single-pass", "labella/vpsc.py", "while abs(lastcost - cost) > 0.0001:", "while False and abs(lastcost - cost) > 0.0001:", ["C05"]),
 ("m11-cost-ignores-weight", "labella/vpsc.py", "_sum += d * d * v.weight", "_sum += d * d", ["C05"]),
 ("m12-stub-gets-label-width", "labella/distributor.py", 'stub = stub.createStub(self.options["stubWidth"])\n                    layers[j].append(stub)\n\n        return layers\n\n    def countIdealOverlaps', 'stub = stub.createStub(node.width)\n                    layers[j].append(stub)\n\n        return layers\n\n    def countIdealOverlaps', ["C04"]),
 ("m13-stub-width-not-budgeted", "labella/distributor.py", 'currentLayerWidth += self.options["stubWidth"]', "currentLayerWidth += 0", ["C04"]),
 ("m14-keep-3-labels", "labella/distributor.py", "len(nodesInCurrentLayer) > 2 and currentLayerWidth > maxWidth", "len(nodesInCurrentLayer) > 3 and currentLayerWidth > maxWidth", ["C04"]),
 ("m15-simple-stub-off-by-one", "labella/distributor.py", "for j in range(mod - 1, -1, -1):", "for j in range(mod - 1, 0, -1):", ["C04"]),
 ("m16-needtosplit-ge", "labella/distributor.py", "return self.estimateRequiredLayers(nodes) > 1", "return self.estimateRequiredLayers(nodes) >= 1", ["C04"]),
 ("m17-no-removeStub", "labella/force.py", "        for node in self._nodes:\n            node.removeStub()\n", "", ["C06"]),
 ("m18-distribute-sort-by-currentPos", "labella/distributor.py", "nodes = sorted(nodes, key=lambda x: x.idealPos)", "nodes = sorted(nodes, key=lambda x: x.currentPos)", ["C06"]),
 ("m19-layer-offset-without-gap", "labella/renderer.py", 'gap = options["layerGap"] + options["nodeHeight"]\n\n        if direction == "left":\n            for node in nodes:', 'gap = options["nodeHeight"]\n\n        if direction == "left":\n            for node in nodes:', ["C07", "C08"]),
 ("m20-tikz-dot-from-currentPos", "labella/timeline.py", 'txt += "(%f, 0) {};" % (node.getRoot().idealPos)', 'txt += "(%f, 0) {};" % (node.currentPos)', ["C07", "C09"]),
 ("m21-hex2html-no-expansion", "labella/utils.py", 'code = "".join([code[0], code[0], code[1], code[1], code[2], code[2]])', 'code = code + code', ["C20", "C09"]),
 ("m22-nodepos-left", "labella/timeline.py", "return (d.x - d.w + d.dx, d.y - d.dy / 2)", "return (d.x, d.y - d.dy / 2)", ["C07", "C08"]),
 ("m23-svg-tick-text-from-other-ticks", "labella/timeline.py", "tick_text = map(scale.tickFormat(), scale.ticks())\n        tick_pos = map(scale, scale.ticks())\n        line_attr", "tick_text = map(scale.tickFormat(), scale.ticks()[1:])\n        tick_pos = map(scale, scale.ticks())\n        line_attr", ["C07", "C09"]),
 ("m24-padding-top-dropped", "labella/timeline.py", 'node.data.height\n                + self.options["labelPadding"]["top"]', 'node.data.height', ["C07"]),
 ("m25-timeline-caches-nodes", "labella/timeline.py", "    def compute(self):\n        nodes = self.get_nodes()", "    def compute(self):\n        if getattr(Timeline, '_cache', None) is None:\n            Timeline._cache = self.get_nodes()\n        nodes = Timeline._cache", ["C10"]),
 ("m26-clamp-setter-no-rescale", "labella/scale.py", "        self._clamp = x\n        return self.rescale()", "        self._clamp = x\n        return self", ["C12"]),
 ("m27-tick-threshold", "labella/scale.py", "elif err <= 0.35:", "elif err <= 0.25:", ["C13"]),
 ("m28-drange-inclusive", "labella/scale.py", "    while r < stop:\n        yield r", "    while r <= stop:\n        yield r", ["C13"]),
 ("m29-nice-single-pass", "labella/scale.py", "    d3_scale_nice(\n        domain, d3_scale_niceStep(d3_scale_linearTickRange(domain, m)[2])\n    )\n    d3_scale_nice(", "    d3_scale_nice(", ["C14"]),
 ("m30-dt2milli-drops-subsecond", "labella/d3_time.py", "dt2milli = lambda x: (x - _epoch) / timedelta(milliseconds=1)", "dt2milli = lambda x: ((x - _epoch) // timedelta(seconds=1)) * 1000.0", ["C15", "C07"]),
 ("m31-step-table-entry", "labella/scale.py", "    9e5,  # 15-minute", "    8e5,  # 15-minute", ["C16"]),
 ("m32-range-end-plus-1-dropped", "labella/scale.py", "milli2dt(extent[0]), milli2dt(extent[1] + 1), skip", "milli2dt(extent[0]), milli2dt(extent[1]), skip", ["C16"]),
 ("m33-week-starts-monday", "labella/d3_time.py", "diff = ((date.isoweekday() % 7) + i) % 7", "diff = ((date.isoweekday() - 1) + i) % 7", ["C17", "C16"]),
 ("m34-ceil-without-minus-1ms", "labella/d3_time.py", "ndate = self._local(milli2dt(dt2milli(date) - 1))", "ndate = self._local(milli2dt(dt2milli(date)))", ["C17", "C14"]),
 ("m35-accents-swapped", "labella/tex.py", '0x0300: "`",\n        0x0301: "\'",', '0x0300: "\'",\n        0x0301: "`",', ["C19", "C07"]),
 ("m36-month-offset-december", "labella/d3_time.py", "    while nmonth > 12:", "    while nmonth > 13:", ["C17", "C16"]),
 ("m37-int2name-base-25", "labella/utils.py", "mod = (div - 1) % 26\n        name = chr(65 + mod) + name\n        div = (div - mod) // 26", "mod = (div - 1) % 25\n        name = chr(65 + mod) + name\n        div = (div - mod) // 25", ["C20"]),
 ("m38-local-timestamp-in-week", "labella/d3_time.py", "ndate = ndate - timedelta(days=diff)", "ndate = datetime.fromtimestamp(ndate.timestamp() - diff * 24 * 3600)", ["C18"]),
 ("m39-getLayers-drops-stubs", "labella/force.py", "        return self.layers", "        return [[n for n in l if not n.isStub()] for l in self.layers] if self.layers else self.layers", ["C04"]),
 ("m40-degenerate-domain-maps-to-middle", "labella/scale.py", '    b = (b - a) or float("inf")\n    return lambda x: (x - a) / b\n', '    b = (b - a) or float("inf")\n    return lambda x: ((x - a) / b) if b != float("inf") else 0.5\n', ["C11", "C07"]),
]


def main():
    sel = sys.argv[1:]
    rows = []
    for name, f, old, new, checks in M:
        if sel and not any(s in name for s in sel):
            continue
        d = tempfile.mkdtemp(prefix="labella-mut-", dir="/var/tmp")
        try:
            shutil.copytree("/repo/labella", os.path.join(d, "labella"))
            shutil.copytree("/repo/tests", os.path.join(d, "tests"))
            p = os.path.join(d, f)
            s = open(p).read()
            if s.count(old) != 1:
                rows.append((name, "PATTERN x%d" % s.count(old), {}))
                continue
            open(p, "w").write(s.replace(old, new))
            try:
                t = subprocess.run(["/venv/bin/python", "-m", "pytest", "-q", "-p", "no:cacheprovider", "-x", "tests"], cwd=d, env=dict(os.environ, PYTHONPATH=d), capture_output=True, text=True, timeout=180)
                tests = t.stdout.strip().splitlines()[-1] if t.stdout.strip() else "?"
            except subprocess.TimeoutExpired:
                tests = "unit tests hang (>180 s)"
            res = {}
            for c in checks:
                r = subprocess.run([os.path.join(ROOT, "check"), c, "--tier", os.environ.get("TIER", "quick"), "--no-shrink"], env=dict(os.environ, LABELLA_REPO=d), capture_output=True, text=True)
                buckets = [l.split(":")[0].split(" ", 1)[1] for l in r.stdout.splitlines() if l.startswith(c + " ") and "seed=" not in l]
                res[c] = ("RED " + ",".join(sorted(set(buckets)))[:90]) if r.returncode == 1 else ("green" if r.returncode == 0 else "exit %d %s" % (r.returncode, (r.stderr or "")[-200:].replace("\n", " ")))
            rows.append((name, tests, res))
            print("%-42s tests: %-22s %s" % (name, tests[:22], "  ".join("%s=%s" % kv for kv in res.items())), flush=True)
        finally:
            shutil.rmtree(d, ignore_errors=True)


if __name__ == "__main__":
    main()
