#!/usr/bin/env python3
"""Sanity of the oracles themselves against second implementations (not a registered check).
run: PYTHONPATH=/repo:lib:.deps /venv/bin/python -B tools/selftest_oracles.py"""
import random

import numpy as np
from fractions import Fraction as F
from scipy.optimize import minimize

from vlib import engine, texrel


class N:
    def __init__(s, t, w, stub=False):
        s.t = t; s.width = w; s.idealPos = t; s.parent = None; s.currentPos = t; s._stub = stub

    def isStub(s):
        return s._stub


def main():
    rng = random.Random(5)
    worst = 0
    for it in range(300):
        n = rng.randint(1, 7)
        items = sorted([N(rng.choice([rng.randint(0, 100), rng.randint(0, 40) + 0.5]), rng.choice([10, 20, 5.5, 1]), rng.random() < 0.3) for _ in range(n)], key=lambda x: x.t)
        opts = dict(nodeSpacing=rng.choice([0, 3, 2.5]), minPos=rng.choice([None, 0, 10]), maxPos=rng.choice([None, 150, 400]))
        G = [F(0)]
        for a, b in zip(items, items[1:]):
            G.append(G[-1] + engine.gap_between(a, b, opts["nodeSpacing"]))
        fits, opt, pooled, active, give = engine.optimum(items, G, opts)
        if not fits:
            continue
        t = np.array([x.t for x in items], float)
        g = np.diff(np.array([float(v) for v in G]))
        cons = [{"type": "ineq", "fun": (lambda x, i=i: x[i + 1] - x[i] - g[i])} for i in range(n - 1)]
        if opts["minPos"] is not None:
            cons.append({"type": "ineq", "fun": lambda x: x[0] - items[0].width / 2 - opts["minPos"]})
        if opts["maxPos"] is not None:
            cons.append({"type": "ineq", "fun": lambda x: opts["maxPos"] - x[-1] - items[-1].width / 2})
        x0 = np.array([float(v) for v in opt])
        r = minimize(lambda x: ((x - t) ** 2).sum(), x0 + rng.uniform(-1, 1), constraints=cons, method="SLSQP", options=dict(ftol=1e-12, maxiter=500))
        worst = max(worst, float(np.abs(r.x - x0).max()))
    print("PAVA clipped to the box vs SLSQP: worst coordinate difference %.2g" % worst)
    assert worst < 1e-3
    A = texrel.allowed
    assert A("\u00e9", "\\'{e}") and not A("\u00e9", "\u00e9") and A("\u01d8", "\\'{\u00fc}") and A("\u01d8", "\\'{\\\"{u}}")
    assert not A("e\u0301x", "e\\'{x}") and A("e\u0301x", "\\'{e}x") and A("a\u2026b", "a\u2026b") and not A("ab", "a")
    assert texrel.readback("Zo\\\"{e} \\'{\\\"{u}}") == "Zoe\u0308 u\u0308\u0301"
    print("texrel ok")


if __name__ == "__main__":
    main()
