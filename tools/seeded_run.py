#!/usr/bin/env python3
"""Confirm every kept seeded change and run its checks against it; writes seeded/RESULTS.json and updates each meta.json.
For each seed: scratch git worktree of /repo (removed afterwards) -> demo on the clean tree must exit 0 -> apply patch ->
the repository's unit tests must pass -> demo must exit 1 -> each listed check is run (quick tier) against the changed tree.
usage: tools/seeded_run.py [seed-id ...]   env: TIER, SEED, JOBS"""
import json, os, shutil, subprocess, sys, tempfile
from concurrent.futures import ThreadPoolExecutor
ROOT = os.path.dirname(os.path.dirname(os.path.abspath(__file__)))


def one(sid):
    src = os.path.join(ROOT, "seeded", sid)
    meta = json.load(open(os.path.join(src, "meta.json")))
    d = tempfile.mkdtemp(prefix="labella-seed-", dir="/var/tmp")
    wt = os.path.join(d, "wt")
    res = dict(id=sid)
    try:
        subprocess.run(["git", "-C", "/repo", "worktree", "add", "-q", "--detach", wt, "HEAD"], check=True)
        env = dict(os.environ, PYTHONPATH=wt)
        demo = os.path.join(src, "demo.py")
        r0 = subprocess.run(["/venv/bin/python", "-B", demo], env=env, capture_output=True, text=True, timeout=600, cwd=d)
        a = subprocess.run(["git", "-C", wt, "apply", os.path.join(src, "patch.diff")], capture_output=True, text=True)
        if a.returncode:
            res["error"] = "patch does not apply: " + a.stderr[-200:]
            return res
        t = subprocess.run(["/venv/bin/python", "-m", "pytest", "-q", "-p", "no:cacheprovider", "tests"], cwd=wt, env=env, capture_output=True, text=True)
        r1 = subprocess.run(["/venv/bin/python", "-B", demo], env=env, capture_output=True, text=True, timeout=600, cwd=d)
        res.update(demo_clean_exit=r0.returncode, unit_tests=(t.stdout.strip().splitlines() or ["?"])[-1], demo_changed_exit=r1.returncode, checks={})
        for c in meta["checks"]:
            cmd = [os.path.join(ROOT, "check"), c, "--tier", os.environ.get("TIER", "quick")] + (["--seed", os.environ["SEED"]] if os.environ.get("SEED") else [])
            alt = os.path.join(d, "alt-" + c)
            r = subprocess.run(cmd, env=dict(os.environ, LABELLA_REPO=wt, VERIF_ALT=alt), capture_output=True, text=True)
            rdir = os.path.join(alt, "replays-alt")
            found = sorted((os.path.getsize(os.path.join(rdir, f)), f) for f in os.listdir(rdir)) if os.path.isdir(rdir) else []
            for old in [f for f in os.listdir(src) if f.startswith("replay-%s-" % c)]:
                os.remove(os.path.join(src, old))
            for k, (_, f) in enumerate(found[:2]):
                shutil.copy(os.path.join(rdir, f), os.path.join(src, "replay-%s-%d.json" % (c, k)))
            buckets = sorted({l.split(":")[0].split(" ", 1)[1] for l in r.stdout.splitlines() if l.startswith(c + " ") and "seed=" not in l and " " in l.split(":")[0]})
            res["checks"][c] = dict(exit=r.returncode, verdict="caught" if r.returncode == 1 else ("missed" if r.returncode == 0 else "harness-error"), buckets=buckets[:6])
    finally:
        subprocess.run(["git", "-C", "/repo", "worktree", "remove", "--force", wt], capture_output=True)
        shutil.rmtree(d, ignore_errors=True)
    return res


def main():
    ids = sys.argv[1:] or sorted(os.listdir(os.path.join(ROOT, "seeded")))
    ids = [i for i in ids if os.path.isdir(os.path.join(ROOT, "seeded", i))]
    if not sys.argv[1:]:  # retired seeds (neutralised by a later repair of /repo) are only run when named explicitly
        ids = [i for i in ids if not json.load(open(os.path.join(ROOT, "seeded", i, "meta.json"))).get("retired")]
    with ThreadPoolExecutor(int(os.environ.get("JOBS", "3"))) as ex:
        results = list(ex.map(one, ids))
    path = os.path.join(ROOT, "seeded", "RESULTS.json")
    old = {}
    if os.path.exists(path):
        old = {r["id"]: r for r in json.load(open(path))["results"]}
    for r in results:
        old[r["id"]] = r
        mp = os.path.join(ROOT, "seeded", r["id"], "meta.json")
        m = json.load(open(mp))
        m["confirmed"] = dict(demo_on_clean_tree_exit=r.get("demo_clean_exit"), unit_tests_with_change=r.get("unit_tests"), demo_with_change_exit=r.get("demo_changed_exit"),
                              how="tools/seeded_run.py: scratch git worktree of /repo under /var/tmp, git apply patch.diff, pytest, demo.py, then ./check <ID> --tier %s with LABELLA_REPO pointing at the worktree; worktree removed afterwards" % os.environ.get("TIER", "quick"))
        m["detection"] = r.get("checks")
        json.dump(m, open(mp, "w"), indent=1)
        print("%-7s clean=%s tests=%-20s changed=%s  %s" % (r["id"], r.get("demo_clean_exit"), str(r.get("unit_tests"))[:20], r.get("demo_changed_exit"), "  ".join("%s:%s" % (c, v["verdict"]) for c, v in (r.get("checks") or {}).items()) or r.get("error")), flush=True)
    json.dump(dict(tier=os.environ.get("TIER", "quick"), results=[old[k] for k in sorted(old)]), open(path, "w"), indent=1)


if __name__ == "__main__":
    main()
