#!/usr/bin/env python3
"""Confirm a seeded change (patch.diff + demo.py) in a scratch copy and run the given checks against it.
usage: tools/seedcheck.py <dir with patch.diff, demo.py> <ID> [ID...]"""
import os, shutil, subprocess, sys, tempfile
ROOT = os.path.dirname(os.path.dirname(os.path.abspath(__file__)))
src = sys.argv[1]; ids = sys.argv[2:]
d = tempfile.mkdtemp(prefix="labella-seed-", dir="/var/tmp")
out = {}
try:
    subprocess.run(["git", "-C", "/repo", "worktree", "add", "-q", "--detach", os.path.join(d, "wt"), "HEAD"], check=True)
    wt = os.path.join(d, "wt")
    env = dict(os.environ, PYTHONPATH=wt)
    demo = os.path.join(src, "demo.py")
    r0 = subprocess.run(["/venv/bin/python", "-B", demo], env=env, capture_output=True, text=True, timeout=300, cwd=d)
    a = subprocess.run(["git", "-C", wt, "apply", os.path.abspath(os.path.join(src, "patch.diff"))], capture_output=True, text=True)
    if a.returncode:
        print("APPLY FAILED", a.stderr); sys.exit(3)
    t = subprocess.run(["/venv/bin/python", "-m", "pytest", "-q", "-p", "no:cacheprovider", "tests"], cwd=wt, env=env, capture_output=True, text=True)
    r1 = subprocess.run(["/venv/bin/python", "-B", demo], env=env, capture_output=True, text=True, timeout=300, cwd=d)
    print("%s: demo clean exit %d | tests with change: %s | demo with change exit %d (%s)" % (src, r0.returncode, t.stdout.strip().splitlines()[-1] if t.stdout.strip() else "?", r1.returncode, (r1.stdout + r1.stderr).strip().splitlines()[-1][:150] if (r1.stdout + r1.stderr).strip() else ""))
    for c in ids:
        r = subprocess.run([os.path.join(ROOT, "check"), c, "--tier", os.environ.get("TIER", "quick")] + (["--seed", os.environ["SEED"]] if os.environ.get("SEED") else []), env=dict(os.environ, LABELLA_REPO=wt), capture_output=True, text=True)
        lines = [l for l in r.stdout.splitlines() if l.startswith(c + " ") and "seed=" not in l]
        print("   %s -> exit %d %s" % (c, r.returncode, " | ".join(l[:200] for l in lines[:3]) if r.returncode == 1 else (r.stderr[-300:] if r.returncode not in (0, 1) else "")))
finally:
    subprocess.run(["git", "-C", "/repo", "worktree", "remove", "--force", os.path.join(d, "wt")], capture_output=True)
    shutil.rmtree(d, ignore_errors=True)
