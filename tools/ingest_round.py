#!/usr/bin/env python3
"""Copy a sub-agent's delivery (patch.diff, demo.py, notes.json) into seeded/<property>-<letter>/ with a meta.json skeleton;
confirmation and detection are then done by tools/seeded_run.py <id>.
usage: tools/ingest_round.py <delivery dir> <property id> <letter> [extra check ids...]"""
import json, os, shutil, sys
ROOT = os.path.dirname(os.path.dirname(os.path.abspath(__file__)))
src, pid, letter = sys.argv[1:4]
extra = sys.argv[4:]
sid = "%s-%s" % (pid, letter)
dst = os.path.join(ROOT, "seeded", sid)
os.makedirs(dst, exist_ok=True)
for f in ("patch.diff", "demo.py"):
    shutil.copy(os.path.join(src, f), os.path.join(dst, f))
n = json.load(open(os.path.join(src, "notes.json")))
meta = dict(id=sid, property=pid, summary=n.get("summary", ""), needs=n.get("needs", ""), files=n.get("files", []),
            origin="independent sub-agent (round 4) given only the property text, one-line summaries of the earlier changes to avoid, and a scratch worktree",
            checks=[pid] + extra, author_ran=n.get("ran", []))
json.dump(meta, open(os.path.join(dst, "meta.json"), "w"), indent=1)
print(sid, "ingested")
