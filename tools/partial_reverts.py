#!/usr/bin/env python3
"""Revert every single hunk of every 'fix:' commit in a scratch copy of /repo and run the owning checks: each repair must
be held in place hunk by hunk (a partial regression of a fixed defect must turn a check red).
usage: tools/partial_reverts.py     (scratch copies under /var/tmp, removed afterwards)"""
import json, os, re, shutil, subprocess, sys, tempfile
ROOT = os.path.dirname(os.path.dirname(os.path.abspath(__file__)))
OWN = {"7f5c760": ["C05"], "7ed8e24": ["C05"], "f415fe0": ["C04"], "768b3a4": ["C17", "C16", "C11"], "04a002a": ["C18", "C14", "C15"], "5a354e8": ["C16", "C11"], "43ba227": ["C11", "C07"],
       "4b70602": ["C10", "C11"], "1845d3d": ["C07"], "61fe82f": ["C12"], "9fbf0fb": ["C19", "C07"]}


def hunks(commit):
    txt = subprocess.run(["git", "-C", "/repo", "show", "--format=", commit], capture_output=True, text=True).stdout
    files = re.split(r"(?m)^diff --git ", txt)[1:]
    out = []
    for f in files:
        head, *hs = re.split(r"(?m)^(?=@@ )", "diff --git " + f)
        for h in hs:
            out.append(head + h)
    return out


for commit, checks in OWN.items():
    for k, h in enumerate(hunks(commit)):
        d = tempfile.mkdtemp(prefix="labella-pr-", dir="/var/tmp")
        try:
            shutil.copytree("/repo/labella", os.path.join(d, "labella"))
            shutil.copytree("/repo/tests", os.path.join(d, "tests"))
            p = subprocess.run(["patch", "-R", "-p1", "-s", "-d", d], input=h, capture_output=True, text=True)
            if p.returncode:
                print("%s hunk %d: does not revert alone (%s)" % (commit, k, (p.stdout + p.stderr).strip()[:80])); continue
            imp = subprocess.run(["/venv/bin/python", "-c", "import labella.timeline, labella.scale, labella.tex"], env=dict(os.environ, PYTHONPATH=d), capture_output=True, text=True)
            if imp.returncode:
                print("%s hunk %d: package no longer imports after the partial revert" % (commit, k)); continue
            t = subprocess.run(["/venv/bin/python", "-m", "pytest", "-q", "-p", "no:cacheprovider", "-x", "tests"], cwd=d, env=dict(os.environ, PYTHONPATH=d), capture_output=True, text=True, timeout=300)
            tests = (t.stdout.strip().splitlines() or ["?"])[-1][:22]
            res = []
            for c in checks:
                r = subprocess.run([os.path.join(ROOT, "check"), c, "--no-shrink"], env=dict(os.environ, LABELLA_REPO=d, VERIF_ALT=os.path.join(d, "alt"), VERIF_WATCHDOG_S="10", VERIF_CASE_WATCHDOG_S="60"), capture_output=True, text=True)
                res.append("%s=%s" % (c, {0: "green", 1: "RED", 2: "exit2"}.get(r.returncode, r.returncode)))
                if r.returncode == 1:
                    break
            first = [l for l in h.splitlines() if l.startswith("+") and not l.startswith("+++")][:1]
            print("%s hunk %d (%s): tests %s | %s" % (commit, k, (first[0][1:].strip()[:50] if first else "deletion"), tests, " ".join(res)), flush=True)
        except subprocess.TimeoutExpired:
            print("%s hunk %d: unit tests hang" % (commit, k))
        finally:
            shutil.rmtree(d, ignore_errors=True)
