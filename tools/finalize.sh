#!/bin/sh
# Final refresh before committing: seeded detection with the final checks, replay corpus, DESIGN table, quick-tier
# evidence from /repo itself, schema validation.
set -e
cd "$(dirname "$0")/.."
JOBS="${JOBS:-3}" python3 tools/seeded_run.py > .work/seeded_final.log 2>&1 || true
grep -E "missed|error" .work/seeded_final.log || true
PYTHONHASHSEED=0 /venv/bin/python -B tools/build_corpus.py | tail -25
python3 tools/design_tables.py
VERIF_SEED=1 ./run_all.sh quick
python3 tools_manifest.py
/opt/veriftools/pyvenv/bin/python - <<'PY'
import json, jsonschema, glob
ms=json.load(open('/root/.vp/MANIFEST.schema.json')); es=json.load(open('/root/.vp/EVIDENCE.schema.json'))
jsonschema.validate(json.load(open('/verif/MANIFEST.json')), ms)
for f in sorted(glob.glob('/verif/evidence/*.json')):
    jsonschema.validate(json.load(open(f)), es)
print("manifest and", len(glob.glob('/verif/evidence/*.json')), "evidence files valid")
PY
