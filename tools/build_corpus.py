#!/usr/bin/env python3
"""Collect the shrunk counterexamples the checks produced on the seeded changes (seeded/<id>/replay-<check>-N.json) into
the committed replay tier corpus/<check>/seeded.json.  Every spec is first evaluated on /repo and kept only if the
property holds there (so the replay tier stays quiet on the unchanged tree)."""
import glob, json, os, sys
ROOT = os.path.dirname(os.path.dirname(os.path.abspath(__file__)))
os.environ.setdefault("VERIF_ROOT", ROOT)
sys.path[:0] = ["/repo", os.path.join(ROOT, "lib"), os.path.join(ROOT, ".deps")]
os.environ["PYTHONPATH"] = os.pathsep.join(sys.path[:3])
os.environ.setdefault("LABELLA_REPO", "/repo")
from vlib import core, registry
from vlib.runner import run_one

by = {}
for f in sorted(glob.glob(os.path.join(ROOT, "seeded", "*", "replay-*.json"))):
    sid = os.path.basename(os.path.dirname(f))
    if json.load(open(os.path.join(os.path.dirname(f), "meta.json"))).get("retired"):
        continue
    chk = os.path.basename(f).split("-")[1]
    d = json.load(open(f))
    spec = d["spec"]
    if spec.get("enumerated_part"):
        continue
    if len(core.canon(spec)) > 60000:
        continue
    by.setdefault(chk, {})[core.spec_hash(spec)] = (sid, d.get("bucket"), spec)
for chk, items in sorted(by.items()):
    prop = registry.load(chk)
    keep = []
    for h, (sid, bucket, spec) in sorted(items.items()):
        try:
            r = run_one(prop, spec)
        except Exception as e:
            r = ("error", repr(e))
        if r is None:
            keep.append(dict(seed=sid, bucket=bucket, spec=spec))
        else:
            print("not kept (%s on /repo): %s %s %s" % (r[0], chk, sid, bucket))
    os.makedirs(os.path.join(ROOT, "corpus", chk), exist_ok=True)
    json.dump(dict(comment="counterexamples found on seeded changes (see seeded/); all of them satisfy the property on /repo", specs=[k["spec"] for k in keep], origin=[dict(seed=k["seed"], bucket=k["bucket"]) for k in keep]),
              open(os.path.join(ROOT, "corpus", chk, "seeded.json"), "w"), indent=0)
    print(chk, len(keep), "specs")
