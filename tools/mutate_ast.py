#!/usr/bin/env python3
"""Systematic mutation run (own sensitivity measure, not a registered check): AST-level operator mutants of labella/*.py,
each in a scratch copy under /var/tmp; the repository's tests are run first, then the checks that own the file (reduced
example counts), stopping at the first red one.  Output: .work/astmut.jsonl, one record per mutant.
usage: tools/mutate_ast.py [per_file=40] [jobs=4] [seed=1]"""
import ast, copy, json, os, random, shutil, subprocess, sys, tempfile
from concurrent.futures import ThreadPoolExecutor
ROOT = os.path.dirname(os.path.dirname(os.path.abspath(__file__)))
OWN = {
 "removeOverlap.py": ["C01", "C02", "C03", "C06", "C08"], "vpsc.py": ["C05", "C02", "C01"], "force.py": ["C04", "C03", "C06", "C01"],
 "distributor.py": ["C04", "C06", "C01"], "node.py": ["C04", "C06", "C07", "C01"], "renderer.py": ["C07", "C08", "C09"],
 "timeline.py": ["C07", "C09", "C11", "C10", "C08"], "scale.py": ["C12", "C13", "C14", "C15", "C16", "C11"], "d3_time.py": ["C17", "C16", "C14", "C18"],
 "tex.py": ["C19", "C07"], "utils.py": ["C20", "C09"],
}
SKIP_FUNCS = {"__repr__", "__str__", "get_latex_fontdoc", "compile_latex", "get_latex_dims", "build_latex_doc", "text_dimensions", "get_text_dimensions", "hex2rgbf", "metrics", "metric",
              "setStartingPositions", "setDesiredPositions", "traverse", "rangeRound", "interpolate", "d3_ascending", "algorithm_roundRobin", "distanceFrom", "overlapWithNode", "overlapWithPoint",
              "positionBefore", "positionAfter", "moveToIdealPosition", "displacement", "getPathToRootLength", "clone", "add_header_labels", "forEach"}
CMP = {ast.Lt: ast.LtE, ast.LtE: ast.Lt, ast.Gt: ast.GtE, ast.GtE: ast.Gt, ast.Eq: ast.NotEq, ast.NotEq: ast.Eq, ast.Is: ast.IsNot, ast.IsNot: ast.Is}
BIN = {ast.Add: ast.Sub, ast.Sub: ast.Add, ast.Mult: ast.Div, ast.Div: ast.Mult, ast.FloorDiv: ast.Div, ast.Mod: ast.FloorDiv}


class Collector(ast.NodeVisitor):
    def __init__(self):
        self.sites = []
        self.func = []

    def visit_FunctionDef(self, n):
        if n.name in SKIP_FUNCS:
            return
        self.func.append(n.name)
        self.generic_visit(n)
        self.func.pop()

    def generic_visit(self, n):
        f = self.func[-1] if self.func else "<module>"
        if isinstance(n, ast.Compare) and len(n.ops) == 1 and type(n.ops[0]) in CMP:
            self.sites.append((n, "cmp", f))
        elif isinstance(n, ast.BinOp) and type(n.op) in BIN and not (isinstance(n.left, ast.Constant) and isinstance(n.left.value, str)):
            self.sites.append((n, "bin", f))
        elif isinstance(n, ast.BoolOp):
            self.sites.append((n, "bool", f))
        elif isinstance(n, ast.UnaryOp) and isinstance(n.op, ast.Not):
            self.sites.append((n, "not", f))
        elif isinstance(n, ast.Constant) and isinstance(n.value, (int, float)) and not isinstance(n.value, bool):
            self.sites.append((n, "const", f))
        elif isinstance(n, ast.If):
            self.sites.append((n, "ifneg", f))
        elif isinstance(n, (ast.Assign, ast.AugAssign, ast.Expr)) and self.func and not (isinstance(n, ast.Expr) and isinstance(n.value, ast.Constant)):
            self.sites.append((n, "del", f))
        super().generic_visit(n)


def mutants(path, rng, limit):
    src = open(path).read()
    tree = ast.parse(src)
    c = Collector()
    c.visit(tree)
    idx = list(range(len(c.sites)))
    rng.shuffle(idx)
    out = []
    for i in idx:
        t2 = copy.deepcopy(tree)
        c2 = Collector()
        c2.visit(t2)
        n, kind, f = c2.sites[i]
        desc = None
        if kind == "cmp":
            desc = "%s -> %s" % (type(n.ops[0]).__name__, CMP[type(n.ops[0])].__name__)
            n.ops[0] = CMP[type(n.ops[0])]()
        elif kind == "bin":
            desc = "%s -> %s" % (type(n.op).__name__, BIN[type(n.op)].__name__)
            n.op = BIN[type(n.op)]()
        elif kind == "bool":
            desc = "%s -> %s" % (type(n.op).__name__, "Or" if isinstance(n.op, ast.And) else "And")
            n.op = ast.Or() if isinstance(n.op, ast.And) else ast.And()
        elif kind == "not":
            desc = "drop not"
            n.op = ast.UAdd()
            n.operand = ast.Call(func=ast.Name(id="bool", ctx=ast.Load()), args=[n.operand], keywords=[])
        elif kind == "const":
            old = n.value
            n.value = (old + 1) if isinstance(old, int) else (old * 2 if old else 1.0)
            desc = "const %r -> %r" % (old, n.value)
        elif kind == "ifneg":
            desc = "negate if"
            n.test = ast.UnaryOp(op=ast.Not(), operand=n.test)
        elif kind == "del":
            desc = "delete statement"
            n2 = ast.Pass()
            for field in ("lineno", "col_offset", "end_lineno", "end_col_offset"):
                setattr(n2, field, getattr(n, field, 0))
            # replace in parent: simplest is to turn it into `pass` via Expr(Constant)
            n.__class__ = ast.Pass
            n._fields = ()
        ast.fix_missing_locations(t2)
        try:
            code = ast.unparse(t2)
            compile(code, path, "exec")
        except Exception:
            continue
        line = getattr(c.sites[i][0], "lineno", 0)
        try:
            frag = ast.unparse(c.sites[i][0])[:70]
        except Exception:
            frag = "?"
        out.append(dict(file=os.path.basename(path), line=line, func=f, kind=kind, desc=desc, frag=frag, code=code))
        if len(out) >= limit:
            break
    return out


def run_one(m):
    d = tempfile.mkdtemp(prefix="labella-am-", dir="/var/tmp")
    rec = {k: m[k] for k in ("file", "line", "func", "kind", "desc", "frag")}
    try:
        shutil.copytree("/repo/labella", os.path.join(d, "labella"))
        shutil.copytree("/repo/tests", os.path.join(d, "tests"))
        open(os.path.join(d, "labella", m["file"]), "w").write(m["code"])
        try:
            t = subprocess.run(["/venv/bin/python", "-m", "pytest", "-q", "-p", "no:cacheprovider", "-x", "tests"], cwd=d, env=dict(os.environ, PYTHONPATH=d), capture_output=True, text=True, timeout=150)
            rec["tests"] = "pass" if t.returncode == 0 else "fail"
        except subprocess.TimeoutExpired:
            rec["tests"] = "hang"
        if rec["tests"] != "pass" and os.environ.get("ALL") != "1":
            return rec
        rec["checks"] = {}
        for c in OWN[m["file"]]:
            try:
                r = subprocess.run([os.path.join(ROOT, "check"), c, "--no-shrink"], env=dict(os.environ, LABELLA_REPO=d, VERIF_ALT=os.path.join(d, "alt"), VERIF_EXAMPLES_SCALE=os.environ.get("SCALE", "0.3"), VERIF_WATCHDOG_S="10", VERIF_CASE_WATCHDOG_S="60"), capture_output=True, text=True, timeout=1500)
                rc = r.returncode
                buckets = sorted({l.split(":")[0].split(" ", 1)[1] for l in r.stdout.splitlines() if l.startswith(c + " ") and "seed=" not in l and " " in l.split(":")[0]})
            except subprocess.TimeoutExpired:
                rc, buckets = -1, ["timeout"]
            rec["checks"][c] = dict(exit=rc, buckets=buckets[:4], err=(r.stderr[-200:] if rc == 2 else ""))
            if rc == 1:
                rec["killed_by"] = c
                break
        return rec
    finally:
        shutil.rmtree(d, ignore_errors=True)


def main():
    per_file = int(sys.argv[1]) if len(sys.argv) > 1 else 40
    jobs = int(sys.argv[2]) if len(sys.argv) > 2 else 4
    rng = random.Random(int(sys.argv[3]) if len(sys.argv) > 3 else 1)
    files = sys.argv[4:] or sorted(OWN)
    ms = []
    for f in files:
        ms += mutants(os.path.join("/repo/labella", f), rng, per_file)
    print("%d mutants" % len(ms), flush=True)
    out = open(os.path.join(ROOT, ".work", "astmut.jsonl"), "a")
    with ThreadPoolExecutor(jobs) as ex:
        for rec in ex.map(run_one, ms):
            out.write(json.dumps(rec) + "\n")
            out.flush()
            print("%-16s %4d %-22s %-28s tests=%-4s %s" % (rec["file"], rec["line"], rec["func"][:22], (rec["desc"] or "")[:28], rec["tests"], rec.get("killed_by") or ("SURVIVED " + str({c: v["exit"] for c, v in rec.get("checks", {}).items()}) if rec["tests"] == "pass" else "")), flush=True)


if __name__ == "__main__":
    main()
