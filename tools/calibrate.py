#!/usr/bin/env python3
"""Observed fractions of the generator classes named in MIN_FRACTIONS over several seeds (to set thresholds conservatively)."""
import json, os, subprocess, sys
ROOT = os.path.dirname(os.path.dirname(os.path.abspath(__file__)))
sys.path.insert(0, os.path.join(ROOT, "lib"))
seeds = [int(x) for x in os.environ.get("SEEDS", "4 5 6").split()]
out = {}
for i in range(1, 21):
    pid = "C%02d" % i
    for sd in seeds:
        r = subprocess.run([os.path.join(ROOT, "check"), pid, "--seed", str(sd)], capture_output=True, text=True)
        ev = json.load(open(os.path.join(ROOT, "evidence", pid + ".json")))
        g = ev["coverage"]["generated_evaluations"] or 1
        for k, v in ev["coverage"]["histogram"].items():
            out.setdefault(pid, {}).setdefault(k, []).append(round(v / g, 4))
        out[pid].setdefault("_exit", []).append(r.returncode)
        out[pid].setdefault("_wall", []).append(ev["wall_s"])
    print(pid, out[pid]["_exit"], out[pid]["_wall"], flush=True)
json.dump(out, open(os.path.join(ROOT, ".work", "calib.json"), "w"), indent=1)
