#!/usr/bin/env python3
"""Negative controls: property-preserving changes (refactorings, unconstrained details, improvements).  Every check must
stay green (exit 0) on them; exit 1 = false alarm of the check (or the change is not property-preserving after all),
exit 2 = harness error (e.g. a parser that depends on surface syntax).
usage: tools/negcheck.py <dir with patch.diff> [IDs...]   env: SCALE (default 0.5)"""
import json, os, shutil, subprocess, sys, tempfile
ROOT = os.path.dirname(os.path.dirname(os.path.abspath(__file__)))
src = sys.argv[1]
ids = sys.argv[2:] or ["C%02d" % i for i in range(1, 21)]
d = tempfile.mkdtemp(prefix="labella-neg-", dir="/var/tmp")
wt = os.path.join(d, "wt")
res = {}
try:
    subprocess.run(["git", "-C", "/repo", "worktree", "add", "-q", "--detach", wt, "HEAD"], check=True)
    a = subprocess.run(["git", "-C", wt, "apply", os.path.abspath(os.path.join(src, "patch.diff"))], capture_output=True, text=True)
    if a.returncode:
        print(src, "APPLY FAILED", a.stderr[-200:]); sys.exit(3)
    t = subprocess.run(["/venv/bin/python", "-m", "pytest", "-q", "-p", "no:cacheprovider", "tests"], cwd=wt, env=dict(os.environ, PYTHONPATH=wt), capture_output=True, text=True)
    tests = (t.stdout.strip().splitlines() or ["?"])[-1]
    for c in ids:
        r = subprocess.run([os.path.join(ROOT, "check"), c, "--no-shrink"], env=dict(os.environ, LABELLA_REPO=wt, VERIF_ALT=os.path.join(d, "alt-" + c), VERIF_EXAMPLES_SCALE=os.environ.get("SCALE", "0.5")), capture_output=True, text=True)
        lines = [l for l in r.stdout.splitlines() if l.startswith(c + " ") and "seed=" not in l]
        res[c] = dict(exit=r.returncode, detail=(lines[:2] if r.returncode == 1 else [r.stderr[-300:]] if r.returncode == 2 else []))
    bad = {c: v for c, v in res.items() if v["exit"] != 0}
    print("%s: tests %s | %s" % (src, tests, "ALL GREEN" if not bad else json.dumps(bad)[:1500]), flush=True)
    json.dump(dict(tests=tests, checks=res), open(os.path.join(src, "negcheck.json"), "w"), indent=1)
finally:
    subprocess.run(["git", "-C", "/repo", "worktree", "remove", "--force", wt], capture_output=True)
    shutil.rmtree(d, ignore_errors=True)
