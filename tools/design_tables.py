#!/usr/bin/env python3
"""Regenerate the seeded-changes table of DESIGN.md (between the SEED-TABLE markers) from seeded/*/meta.json."""
import json, os
ROOT = os.path.dirname(os.path.dirname(os.path.abspath(__file__)))


def short(t, n):
    t = (t or "").replace("\n", " ").replace("|", "/")
    return t if len(t) <= n else t[:n - 1].rsplit(" ", 1)[0] + " …"


rows = []
for sid in sorted(os.listdir(os.path.join(ROOT, "seeded"))):
    mp = os.path.join(ROOT, "seeded", sid, "meta.json")
    if not os.path.exists(mp):
        continue
    m = json.load(open(mp))
    det = m.get("detection") or {}
    verdicts = ", ".join("%s %s%s" % (c, v["verdict"], (" (" + ", ".join(v["buckets"][:2]) + ")") if v.get("buckets") else "") for c, v in det.items())
    if m.get("detection_note"):
        verdicts += " — " + m["detection_note"]
    if m.get("retired"):
        verdicts = "retired: " + m["retired"]
    rows.append("| %s | %s | %s | %s |" % (sid, short(m.get("summary"), 200), short(m.get("needs"), 160), verdicts))
table = "\n".join(["| seed | change (author's summary) | needs, to manifest | verdicts (quick tier unless noted) |", "|---|---|---|---|"] + rows) + "\n"
p = os.path.join(ROOT, "DESIGN.md")
s = open(p).read()
B, E = "<!-- SEED-TABLE-BEGIN -->\n", "<!-- SEED-TABLE-END -->\n"
if B in s:
    i, j = s.index(B) + len(B), s.index(E)
    s = s[:i] + table + s[j:]
else:
    i = s.index("| seed | change (author's summary)")
    j = s.index("\n### 6.6", i) + 1
    s = s[:i] + B + table + E + "\n" + s[j:]
open(p, "w").write(s)
print(len(rows), "rows")
