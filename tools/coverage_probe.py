#!/usr/bin/env python3
"""Which lines of labella/ do the checks execute? (own diagnostic, not a registered check)
run: PYTHONPATH=/repo:lib:.deps /venv/bin/python -B tools/coverage_probe.py [examples]"""
import os, sys
import coverage
ROOT = os.path.dirname(os.path.dirname(os.path.abspath(__file__)))
os.environ.setdefault("VERIF_ROOT", ROOT)
n = int(sys.argv[1]) if len(sys.argv) > 1 else 120
cov = coverage.Coverage(source=["/repo/labella"], data_file=None)
cov.start()
from vlib import core, registry
for pid in registry.IDS:
    if pid in ("C10", "C18"):  # their library calls happen in subprocesses
        continue
    prop = registry.load(pid)
    prop.KNOWN = {}
    ctx = core.Ctx(pid, "quick", 1)
    ex = n if not hasattr(prop, "machine") else max(5, n // 10)
    try:
        core.run_generate(prop, "quick", 1000, ex, ctx)
    except Exception as e:
        print(pid, "error", repr(e)[:200])
    print(pid, ctx.evaluations, "cases", len(ctx.buckets), "buckets", flush=True)
cov.stop()
cov.report(show_missing=True, file=sys.stdout)
